/* Schedule harness for the concurrent clause of C19: runs real threads through the real
 * lib/array.c under a token-passing scheduler, driver `arrayconc`.
 *
 *   create MAX ESZ AUTO      -> ok | E<NAME>
 *   thr T: op; op; ...       -> ok            (ops: index I | grow N | numbins)
 *   sched t t t ...          -> per turn: the results completed in it (`r T OPNO result`), then
 *                               `t T <park point>`; finally `end`
 *
 * Exactly one thread runs at a time.  A worker parks
 *   - before every lock attempt      (`lock`; `blocked` when the attempt failed and it stays there),
 *   - right after every real unlock  (`unlocked`),
 *   - right after the table realloc  (`realloc`: the old table is freed, a->bin not yet updated),
 * and a turn lets it run to its next park point.  No source hook is needed: pthread_spin_* are
 * defined here (the statically linked lib objects bind to these definitions; the lock itself is
 * reimplemented with an atomic compare-and-swap) and realloc is wrapped with the linker
 * (-Wl,--wrap=realloc; __real_realloc is ASan's, which always moves and quarantines the old
 * block, so a read through the stale a->bin is reported as heap-use-after-free).
 * After the schedule the remaining calls are drained quietly, always advancing a thread that sits
 * in the realloc window first.
 */
#include "os_base.h"
#include <pthread.h>
#include <semaphore.h>
#include <qb/qbarray.h>
#include "lineio.h"

#if defined(__SANITIZE_ADDRESS__)
#include <sanitizer/asan_interface.h>
#define HAVE_LOCATE 1
#else
#define HAVE_LOCATE 0
#endif

enum { P_START, P_LOCK, P_BLOCKED, P_UNLOCKED, P_REALLOC, P_DONE };
static const char *park_name[] = { "start", "lock", "blocked", "unlocked", "realloc", "done" };

enum { O_INDEX, O_GROW, O_NUMBINS };
struct op { int kind; long long arg; };

#define MAXTHR 8
#define MAXOPS 64
struct worker {
	pthread_t th;
	sem_t sem;
	struct op ops[MAXOPS];
	int nops;
	int park;
	int started;
};
static struct worker W[MAXTHR];
static int nthr = 0;
static sem_t sched_sem;
static __thread int me = -1;
static __thread int in_call = 0;
static volatile int quiet = 0;

static qb_array_t *arr = NULL;
static size_t esz = 0;

#define MAXBLK 8192
static char *blk_base[MAXBLK];
static int nblk = 0;

static int blk_id(char *base)
{
	int i;
	for (i = 0; i < nblk; i++) if (blk_base[i] == base) return i;
	if (nblk < MAXBLK) { blk_base[nblk] = base; return nblk++; }
	return -1;
}

static void park(int kind)
{
	W[me].park = kind;
	sem_post(&sched_sem);
	sem_wait(&W[me].sem);
}

/* ---- interposed lock primitives (bound by lib/util.o at link time) ---- */
int pthread_spin_init(pthread_spinlock_t *l, int pshared) { *l = 0; return 0; }
int pthread_spin_destroy(pthread_spinlock_t *l) { return 0; }
int pthread_spin_trylock(pthread_spinlock_t *l) { return __sync_bool_compare_and_swap(l, 0, 1) ? 0 : EBUSY; }
int pthread_spin_lock(pthread_spinlock_t *l)
{
	if (me >= 0 && in_call) {
		park(P_LOCK);
		while (!__sync_bool_compare_and_swap(l, 0, 1)) park(P_BLOCKED);
		return 0;
	}
	while (!__sync_bool_compare_and_swap(l, 0, 1)) sched_yield();
	return 0;
}
int pthread_spin_unlock(pthread_spinlock_t *l)
{
	__sync_synchronize();
	*l = 0;
	__sync_synchronize();
	if (me >= 0 && in_call) park(P_UNLOCKED);
	return 0;
}

/* ---- realloc wrapped by the linker ---- */
void *__real_realloc(void *p, size_t n);
void *__wrap_realloc(void *p, size_t n)
{
	void *r = __real_realloc(p, n);
	if (me >= 0 && in_call) park(P_REALLOC);
	return r;
}

static void print_addr(int tid, int opno, void *p)
{
#if HAVE_LOCATE
	char name[16];
	void *ra = NULL;
	size_t rs = 0;
	const char *kind = __asan_locate_address(p, name, sizeof name, &ra, &rs);
	if (strcmp(kind, "heap") != 0) { printf("r %d %d wild\n", tid, opno); return; }
	if ((size_t)((char *)p - (char *)ra) + esz > rs) { printf("r %d %d oob\n", tid, opno); return; }
	printf("r %d %d addr %d %zu\n", tid, opno, blk_id(ra), (size_t)((char *)p - (char *)ra));
#else
	printf("r %d %d addr %p\n", tid, opno, p);
#endif
}

static void *worker_main(void *a)
{
	int k;
	me = (int)(intptr_t)a;
	sem_wait(&W[me].sem);
	for (k = 0; k < W[me].nops; k++) {
		struct op *o = &W[me].ops[k];
		if (o->kind == O_INDEX) {
			void *p = NULL;
			int32_t rc;
			in_call = 1;
			rc = qb_array_index(arr, (int32_t)o->arg, &p);
			in_call = 0;
			if (quiet) continue;
			if (rc != 0) printf("r %d %d %s\n", me, k, vl_errname(rc));
			else print_addr(me, k, p);
		} else if (o->kind == O_GROW) {
			int32_t rc;
			in_call = 1;
			rc = qb_array_grow(arr, (size_t)o->arg);
			in_call = 0;
			if (quiet) continue;
			if (rc != 0) printf("r %d %d %s\n", me, k, vl_errname(rc));
			else printf("r %d %d 0\n", me, k);
		} else {
			size_t n;
			in_call = 1;
			n = qb_array_num_bins_get(arr);
			in_call = 0;
			if (quiet) continue;
			printf("r %d %d %zu\n", me, k, n);
		}
	}
	W[me].park = P_DONE;
	sem_post(&sched_sem);
	return NULL;
}

/* like vl_read, but with room for long schedules */
#define MAXTOK 4096
static int read_tokens(char **tok)
{
	ssize_t n;
	int nt = 0;
	char *p;
	for (;;) {
		n = getline(&vl_line, &vl_cap, stdin);
		if (n < 0) return -1;
		while (n > 0 && (vl_line[n-1] == '\n' || vl_line[n-1] == '\r' || vl_line[n-1] == ' ')) vl_line[--n] = 0;
		p = vl_line;
		while (*p == ' ') p++;
		if (*p == 0 || *p == '#') continue;
		break;
	}
	while (*p && nt < MAXTOK) {
		tok[nt++] = p;
		while (*p && *p != ' ') p++;
		if (*p) { *p++ = 0; while (*p == ' ') p++; }
	}
	return nt;
}

static void give_turn(int t)
{
	sem_post(&W[t].sem);
	sem_wait(&sched_sem);
}

static void reset_case(void)
{
	int i;
	if (arr) { qb_array_free(arr); arr = NULL; }
	for (i = 0; i < MAXTHR; i++) { W[i].nops = 0; W[i].park = P_START; W[i].started = 0; }
	nthr = 0;
	nblk = 0;
	quiet = 0;
}

static void run_sched(char **t, int nt)
{
	int i, s;
	for (i = 0; i < nthr; i++) {
		sem_init(&W[i].sem, 0, 0);
		W[i].park = P_START;
		W[i].started = 1;
		pthread_create(&W[i].th, NULL, worker_main, (void *)(intptr_t)i);
	}
	for (s = 1; s < nt; s++) {
		int tid = atoi(t[s]);
		if (tid < 0 || tid >= nthr || W[tid].park == P_DONE) {
			printf("t %d done\n", tid);
			continue;
		}
		give_turn(tid);
		printf("t %d %s\n", tid, park_name[W[tid].park]);
	}
	printf("end\n");
	/* drain quietly; a thread in the realloc window always goes first */
	quiet = 1;
	for (;;) {
		int pick = -1;
		for (i = 0; i < nthr; i++) if (W[i].park == P_REALLOC) { pick = i; break; }
		if (pick < 0) for (i = 0; i < nthr; i++) if (W[i].park != P_DONE && W[i].park != P_BLOCKED) { pick = i; break; }
		if (pick < 0) for (i = 0; i < nthr; i++) if (W[i].park != P_DONE) { pick = i; break; }
		if (pick < 0) break;
		give_turn(pick);
	}
	for (i = 0; i < nthr; i++) { pthread_join(W[i].th, NULL); sem_destroy(&W[i].sem); W[i].started = 0; }
	quiet = 0;
}

int main(void)
{
	static char *t[MAXTOK];
	int nt;
	VL_INIT();
	sem_init(&sched_sem, 0, 0);
	reset_case();
	while ((nt = read_tokens(t)) >= 0) {
		if (strcmp(t[0], "case") == 0) {
			reset_case();
			printf("case %s\n", nt > 1 ? t[1] : "");
		} else if (strcmp(t[0], "create") == 0 && nt == 4) {
			size_t mx = strtoull(t[1], NULL, 10), es = strtoull(t[2], NULL, 10), ag = strtoull(t[3], NULL, 10);
			reset_case();
			errno = 0;
			arr = qb_array_create_2(mx, es, ag);
			esz = es;
			if (!arr) printf("%s\n", vl_errname(errno)); else printf("ok\n");
		} else if (strcmp(t[0], "thr") == 0 && nt >= 2) {
			int tid = atoi(t[1]), k = 2, bad = 0;
			struct worker *w;
			if (tid < 0 || tid >= MAXTHR) { printf("bad-op\n"); continue; }
			w = &W[tid];
			w->nops = 0;
			while (k < nt && !bad && w->nops < MAXOPS) {
				char *a = t[k], *b = (k + 1 < nt) ? t[k + 1] : NULL;
				size_t la = strlen(a);
				if (strcmp(a, ";") == 0) { k++; continue; }
				if (strncmp(a, "numbins", 7) == 0) { w->ops[w->nops].kind = O_NUMBINS; w->ops[w->nops++].arg = 0; k++; }
				else if ((strcmp(a, "index") == 0 || strcmp(a, "grow") == 0) && b) {
					w->ops[w->nops].kind = a[0] == 'i' ? O_INDEX : O_GROW;
					w->ops[w->nops++].arg = a[0] == 'i' ? strtoll(b, NULL, 10) : (long long)strtoull(b, NULL, 10);
					k += 2;
				} else bad = 1;
				(void)la;
			}
			if (bad) { printf("bad-op\n"); w->nops = 0; }
			else { if (tid + 1 > nthr) nthr = tid + 1; printf("ok\n"); }
		} else if (strcmp(t[0], "sched") == 0) {
			if (!arr) printf("bad-op\n"); else run_sched(t, nt);
		} else {
			printf("bad-op\n");
		}
	}
	reset_case();
	return 0;
}
