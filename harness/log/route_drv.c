/* Log-routing harness (property C12): drives the REAL lib/log.c + lib/log_dcs.c (linked from the
 * ASan build of the repository's lib directory) with the op lines of DESIGN.md appendix A, driver
 * `logroute`.
 *
 *   init PRIO                         qb_log_init("route", LOG_USER, PRIO), then the syslog target is
 *                                     disabled (its "*" filter stays stored)             -> ok
 *   fini                              qb_log_fini()                                      -> ok
 *   topen                             qb_log_custom_open(cb, NULL, NULL, NULL)           -> slot | E<NAME>
 *   tclose T                          qb_log_custom_close(T)                             -> ok
 *   enable T 0|1                      qb_log_ctl(T, QB_LOG_CONF_ENABLED, v)              -> ok | E<NAME>
 *   filter T CONF TYPE TEXT HI LO     qb_log_filter_ctl2(T, CONF, TYPE, TEXT, HI, LO)    -> ok | E<NAME>
 *        CONF: add remove clearall tagset tagclear tagclearall
 *        TYPE: file func fmt filere funcre fmtre
 *   log FILE FUNC LINE PRIO FMT TAGS  qb_log_from_external_source(FUNC, FILE, FMT, PRIO, LINE, TAGS)
 *                                     -> "deliver T:tags T:tags ..." (order of the logger callbacks)
 *   rx TEXT STR 0|1                   declares the verdict of regexec(regcomp(TEXT,0), STR); the harness
 *                                     CHECKS it against the real regcomp/regexec         -> ok | rx-mismatch
 *   rxbad TEXT                        declares that regcomp(TEXT,0) fails (checked)      -> ok | rx-mismatch
 *   rxq TEXT STR                      query (used by the generator to build rx lines)    -> 0 | 1 | bad
 *
 * Strings are plain tokens without white space; "-" is the empty string.
 *
 * Harness-level exclusions (answered "bad-op" without calling the library; the model driver does the
 * same): `init` while initialised and `topen` while not initialised (API misuse: qb_log_init does not
 * release what a previous init allocated; qb_log_target_alloc does not look at logger_inited),
 * `tclose`/`enable` on the four static slots (syslog/stderr/blackbox/stdout have OS-facing loggers),
 * formats containing '%' (the harness passes no variadic arguments), the empty format (cs_format reads
 * str[-1]: defect D7, property C13), numbers out of the C types' range.
 *
 * Every call site is created through qb_log_from_external_source -> qb_log_callsite_get2 ->
 * qb_log_dcs_get, i.e. the DYNAMIC call-site registry; the linker-section static call sites
 * (qb_log() macro, QB_LOG_INIT_DATA) are not exercised here.
 */
#include "os_base.h"
#include <syslog.h>
#include <regex.h>
#include <qb/qbdefs.h>
#include <qb/qblog.h>
#include "lineio.h"

#define STATIC_MAX QB_LOG_TARGET_STATIC_MAX

static int inited = 0;
static char dbuf[8192];
static size_t dlen = 0;
static const char *cur_file, *cur_func, *cur_fmt;
static unsigned cur_line, cur_prio;

static const char *tokstr(const char *s)
{
	return strcmp(s, "-") == 0 ? "" : s;
}

static void logger_cb(int32_t t, struct qb_log_callsite *cs, struct timespec *ts, const char *msg)
{
	int n;
	(void)ts;
	n = snprintf(dbuf + dlen, sizeof dbuf - dlen, " %d:%u", (int)t, (unsigned)cs->tags);
	if (n > 0) dlen += (size_t)n;
	/* the call site handed to the target must be the one the call named */
	if (strcmp(cs->filename, cur_file) != 0 || strcmp(cs->function, cur_func) != 0 ||
	    strcmp(cs->format, cur_fmt) != 0 || cs->lineno != cur_line || cs->priority != cur_prio) {
		n = snprintf(dbuf + dlen, sizeof dbuf - dlen, "!site");
		if (n > 0) dlen += (size_t)n;
	}
	if (strcmp(msg, cur_fmt) != 0) {
		n = snprintf(dbuf + dlen, sizeof dbuf - dlen, "!msg");
		if (n > 0) dlen += (size_t)n;
	}
}

static int parse_conf(const char *s)
{
	if (!strcmp(s, "add")) return QB_LOG_FILTER_ADD;
	if (!strcmp(s, "remove")) return QB_LOG_FILTER_REMOVE;
	if (!strcmp(s, "clearall")) return QB_LOG_FILTER_CLEAR_ALL;
	if (!strcmp(s, "tagset")) return QB_LOG_TAG_SET;
	if (!strcmp(s, "tagclear")) return QB_LOG_TAG_CLEAR;
	if (!strcmp(s, "tagclearall")) return QB_LOG_TAG_CLEAR_ALL;
	return -1;
}

static int parse_type(const char *s)
{
	if (!strcmp(s, "file")) return QB_LOG_FILTER_FILE;
	if (!strcmp(s, "func")) return QB_LOG_FILTER_FUNCTION;
	if (!strcmp(s, "fmt")) return QB_LOG_FILTER_FORMAT;
	if (!strcmp(s, "filere")) return QB_LOG_FILTER_FILE_REGEX;
	if (!strcmp(s, "funcre")) return QB_LOG_FILTER_FUNCTION_REGEX;
	if (!strcmp(s, "fmtre")) return QB_LOG_FILTER_FORMAT_REGEX;
	return -1;
}

/* decimal, 0 <= v <= max; -1 otherwise */
static long long parse_num(const char *s, long long max)
{
	char *e;
	long long v;
	if (!*s || *s == '-' || *s == '+') return -1;
	errno = 0;
	v = strtoll(s, &e, 10);
	if (errno || *e || v < 0 || v > max) return -1;
	return v;
}

/* 0/1 verdict, 2 = does not compile */
static int rx_real(const char *text, const char *str)
{
	regex_t re;
	int r;
	if (regcomp(&re, text, 0) != 0) return 2;
	r = regexec(&re, str, 0, NULL, 0) == 0 ? 1 : 0;
	regfree(&re);
	return r;
}

/* lineio.h's table has no EMFILE */
static const char *errname(int rc)
{
	return (rc == -EMFILE || rc == EMFILE) ? "EMFILE" : vl_errname(rc);
}

static void rc_line(int rc)
{
	if (rc < 0) printf("%s\n", errname(rc)); else printf("ok\n");
}

int main(void)
{
	char *t[VL_MAXTOK];
	int nt;
	VL_INIT();
	while ((nt = vl_read(t)) >= 0) {
		if (strcmp(t[0], "case") == 0) {
			if (inited) { qb_log_fini(); inited = 0; }
			printf("case %s\n", nt > 1 ? t[1] : "");
		} else if (strcmp(t[0], "init") == 0 && nt == 2) {
			long long p = parse_num(t[1], 255);
			if (inited || p < 0) { printf("bad-op\n"); continue; }
			qb_log_init("route", LOG_USER, (uint8_t)p);
			inited = 1;
			rc_line(qb_log_ctl(QB_LOG_SYSLOG, QB_LOG_CONF_ENABLED, QB_FALSE));
		} else if (strcmp(t[0], "fini") == 0 && nt == 1) {
			qb_log_fini();
			inited = 0;
			printf("ok\n");
		} else if (strcmp(t[0], "topen") == 0 && nt == 1) {
			int32_t rc;
			if (!inited) { printf("bad-op\n"); continue; }
			rc = qb_log_custom_open(logger_cb, NULL, NULL, NULL);
			if (rc < 0) printf("%s\n", errname(rc)); else printf("%d\n", (int)rc);
		} else if (strcmp(t[0], "tclose") == 0 && nt == 2) {
			long long T = parse_num(t[1], QB_LOG_TARGET_MAX - 1);
			if (T < STATIC_MAX) { printf("bad-op\n"); continue; }
			qb_log_custom_close((int32_t)T);
			printf("ok\n");
		} else if (strcmp(t[0], "enable") == 0 && nt == 3) {
			long long T = parse_num(t[1], QB_LOG_TARGET_MAX - 1);
			long long v = parse_num(t[2], 1);
			if (T < STATIC_MAX || v < 0) { printf("bad-op\n"); continue; }
			rc_line(qb_log_ctl((int32_t)T, QB_LOG_CONF_ENABLED, (int32_t)v));
		} else if (strcmp(t[0], "filter") == 0 && nt == 7) {
			long long T = parse_num(t[1], 0x7fffffffLL);
			int c = parse_conf(t[2]);
			int ty = parse_type(t[3]);
			long long hi = parse_num(t[5], 255);
			long long lo = parse_num(t[6], 255);
			if (T < 0 || c < 0 || ty < 0 || hi < 0 || lo < 0) { printf("bad-op\n"); continue; }
			rc_line(qb_log_filter_ctl2((int32_t)T, (enum qb_log_filter_conf)c, (enum qb_log_filter_type)ty,
						   tokstr(t[4]), (uint8_t)hi, (uint8_t)lo));
		} else if (strcmp(t[0], "log") == 0 && nt == 7) {
			long long line = parse_num(t[3], 0x7fffffffLL);
			long long prio = parse_num(t[4], 255);
			long long tags = parse_num(t[6], 0x7fffffffLL);
			if (line < 0 || prio < 0 || tags < 0 || strchr(t[5], '%') || strcmp(t[5], "-") == 0) {
				printf("bad-op\n");
				continue;
			}
			cur_file = tokstr(t[1]);
			cur_func = tokstr(t[2]);
			cur_fmt = tokstr(t[5]);
			cur_line = (unsigned)line;
			cur_prio = (unsigned)prio;
			dlen = 0;
			dbuf[0] = 0;
			qb_log_from_external_source(cur_func, cur_file, cur_fmt, (uint8_t)prio,
						    (uint32_t)line, (uint32_t)tags);
			printf("deliver%s\n", dbuf);
		} else if (strcmp(t[0], "rx") == 0 && nt == 4) {
			int r = rx_real(tokstr(t[1]), tokstr(t[2]));
			printf("%s\n", (r < 2 && r == atoi(t[3])) ? "ok" : "rx-mismatch");
		} else if (strcmp(t[0], "rxbad") == 0 && nt == 2) {
			printf("%s\n", rx_real(tokstr(t[1]), "") == 2 ? "ok" : "rx-mismatch");
		} else if (strcmp(t[0], "rxq") == 0 && nt == 3) {
			int r = rx_real(tokstr(t[1]), tokstr(t[2]));
			printf("%s\n", r == 2 ? "bad" : (r ? "1" : "0"));
		} else {
			printf("bad-op\n");
		}
	}
	if (inited) qb_log_fini();
	return 0;
}
