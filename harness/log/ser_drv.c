/* Blackbox record encode/decode harness (property C14): drives the real
 * qb_vsnprintf_serialize / qb_vsnprintf_deserialize of lib/log_format.c with the op lines of
 * DESIGN.md appendix A, driver `ser`.
 *
 *   ser   MAXLEN FMTHEX arg...              -> "ser R HEX"          R = return value, HEX = first min(R,MAXLEN) record bytes
 *   deser STRLEN RECHEX [r:...]             -> "deser R HEX maxw=I" HEX = decoded C string, I = highest index stored
 *   rt    MAXLEN STRLEN FMTHEX arg... [r:...] [noref] [reffmt:HEX]
 *                                           -> the "ser" line, then the "deser" line for the record just
 *                                              produced, then "ref L HEX" = libc's vsnprintf of the same
 *                                              format/arguments (harness only; NULL strings passed as "(null)";
 *                                              reffmt: = format to use instead, for the QB_XC marker)
 *   args:  i:<dec> int   l:<dec> long   q:<dec> long long   c:<dec> int (char)   *:<dec> int (width/precision)
 *          d:<16 hex digits> double bits   s:<hex bytes>|s:null char*   p:<hex> void*
 *   r:...  renderings for the model (ignored here; produced by this harness when built -DSER_ANNOTATE)
 *
 * Buffers are heap blocks of exactly the stated size, so ASan reports the first byte stored out
 * of bounds.  The record handed to the decoder is followed by zero padding (the decoder is not
 * told the record length; reads past the record are outside C14, see C15).
 *
 * Passing a generated argument list to a varargs function (SysV x86-64 only): one fixed call
 *   f(fmt, g0..g4, x0..x7, o0..o23)
 * The first 5 integer-class arguments travel in rsi,rdx,rcx,r8,r9, the first 8 doubles in
 * xmm0..7, every further argument (either class) in 8-byte stack slots in call order.  va_arg in
 * the callee therefore sees exactly the typed list, whatever the interleaving, as long as there
 * are at most 24 arguments beyond the registers.
 *
 * With -DSER_ANNOTATE the real log_format.c is #included with snprintf routed through a
 * recorder: `deser`/`rt` then print one extra line "ann m:<minifmt hex> k:<arg key> r:<len>:<hex> ..."
 * listing every snprintf call the decoder made (mini-format, argument, full would-be text).  The check feeds the
 * renderings of directives the Lean model does not render itself (floating point, %p, anything
 * libc parses in a way the model does not claim to know) back to the model as r: tokens.
 */
#include "os_base.h"
#include <stdarg.h>
#include <stdint.h>
#include "lineio.h"

#ifdef SER_ANNOTATE
static int qbv_snprintf(char *str, size_t size, const char *fmt, ...);
#define snprintf qbv_snprintf
#include "log_format.c"
#undef snprintf
#define ANN_MAX 8192
static int ann_on = 0;
static char ann_scratch[ANN_MAX];
static char *ann_out = NULL;
static size_t ann_len = 0, ann_cap = 0;
static void ann_put(const char *s, size_t n)
{
	if (ann_len + n + 1 > ann_cap) {
		ann_cap = (ann_len + n + 1) * 2;
		ann_out = realloc(ann_out, ann_cap);
	}
	memcpy(ann_out + ann_len, s, n);
	ann_len += n;
	ann_out[ann_len] = 0;
}
static void ann_hex(const char *b, size_t n)
{
	char t[3];
	size_t i;
	if (n == 0) { ann_put("-", 1); return; }
	for (i = 0; i < n; i++) { sprintf(t, "%02x", (unsigned char)b[i]); ann_put(t, 2); }
}
static int qbv_snprintf(char *str, size_t size, const char *fmt, ...)
{
	va_list ap;
	int r;
	if (ann_on) {
		char num[48];
		int full;
		size_t fl = strlen(fmt);
		char conv = fl ? fmt[fl - 1] : 0;
		va_start(ap, fmt);
		full = vsnprintf(ann_scratch, ANN_MAX, fmt, ap);
		va_end(ap);
		ann_put(" m:", 3);
		ann_hex(fmt, fl);
		/* the argument, as the key under which the model looks the rendering up */
		va_start(ap, fmt);
		ann_put(" k:", 3);
		if (conv && strchr("diouxX", conv)) {
			if (strpbrk(fmt, "lztj")) sprintf(num, "w%llx", (unsigned long long)va_arg(ap, unsigned long));
			else sprintf(num, "w%x", va_arg(ap, unsigned int));
			ann_put(num, strlen(num));
		} else if (conv && strchr("eEfFgGaA", conv)) {
			double d = va_arg(ap, double);
			unsigned long long b;
			memcpy(&b, &d, 8);
			sprintf(num, "d%llx", b);
			ann_put(num, strlen(num));
		} else if (conv == 'c') {
			sprintf(num, "c%x", va_arg(ap, int) & 0xff);
			ann_put(num, strlen(num));
		} else if (conv == 's') {
			const char *sp = va_arg(ap, const char *);
			ann_put("s", 1);
			ann_hex(sp, strlen(sp));
		} else if (conv == 'p') {
			sprintf(num, "p%llx", (unsigned long long)va_arg(ap, unsigned long));
			ann_put(num, strlen(num));
		} else {
			ann_put("x", 1);
		}
		va_end(ap);
		sprintf(num, " r:%d:", full);
		ann_put(num, strlen(num));
		if (full < 0) ann_put("-", 1);
		else ann_hex(ann_scratch, full < ANN_MAX - 1 ? full : ANN_MAX - 1);
	}
	va_start(ap, fmt);
	r = vsnprintf(str, size, fmt, ap);
	va_end(ap);
	return r;
}
#else
extern size_t qb_vsnprintf_serialize(char *serialize, size_t max_len, const char *fmt, va_list ap);
extern size_t qb_vsnprintf_deserialize(char *string, size_t str_len, const char *buf);
#endif

#define NG 5
#define NX 8
#define NO 24
#define MAXTOK 400

typedef uint64_t u64;

static char *g_buf;
static size_t g_max;

static size_t call_ser(const char *fmt, ...)
{
	va_list ap;
	size_t r;
	va_start(ap, fmt);
	r = qb_vsnprintf_serialize(g_buf, g_max, fmt, ap);
	va_end(ap);
	return r;
}

static int call_ref(const char *fmt, ...)
{
	va_list ap;
	int r;
	va_start(ap, fmt);
	r = vsnprintf(g_buf, g_max, fmt, ap);
	va_end(ap);
	return r;
}

struct args {
	u64 g[NG];
	double x[NX];
	u64 o[NO];
	int ng, nx, no;
	char *strs[64];
	int nstr;
	int bad;
};

static void args_free(struct args *a)
{
	int i;
	for (i = 0; i < a->nstr; i++) free(a->strs[i]);
	a->nstr = 0;
}

static void put_int_class(struct args *a, u64 v)
{
	if (a->ng < NG) a->g[a->ng++] = v;
	else if (a->no < NO) a->o[a->no++] = v;
	else a->bad = 1;
}

/* parse argument tokens; null_as_text: pass "(null)" instead of NULL (for the libc reference) */
static void parse_args(struct args *a, char **tok, int n, int null_as_text)
{
	int i;
	memset(a, 0, sizeof *a);
	for (i = 0; i < n; i++) {
		char *t = tok[i];
		if (strcmp(t, "noref") == 0 || strncmp(t, "reffmt:", 7) == 0) continue;
		if (t[0] == 0 || t[1] != ':') { a->bad = 1; continue; }
		switch (t[0]) {
		case 'i': case '*':
			put_int_class(a, (u64)(int64_t)(int32_t)strtoll(t + 2, NULL, 10));
			break;
		case 'c':
			put_int_class(a, (u64)(strtoul(t + 2, NULL, 10) & 0xff));
			break;
		case 'l': case 'q':
			put_int_class(a, (u64)strtoll(t + 2, NULL, 10));
			break;
		case 'p':
			put_int_class(a, (u64)strtoull(t + 2, NULL, 16));
			break;
		case 's':
			if (strcmp(t + 2, "null") == 0) {
				put_int_class(a, null_as_text ? (u64)(uintptr_t)"(null)" : 0);
			} else {
				size_t len;
				unsigned char *b = vl_unhex(t + 2, &len);
				char *s;
				if (!b || a->nstr >= 64) { a->bad = 1; free(b); break; }
				/* exactly sized, NUL terminated: over-reads of the string are seen by ASan */
				s = malloc(len + 1);
				memcpy(s, b, len);
				s[len] = 0;
				free(b);
				a->strs[a->nstr++] = s;
				put_int_class(a, (u64)(uintptr_t)s);
			}
			break;
		case 'd': {
			u64 bits = strtoull(t + 2, NULL, 16);
			double d;
			memcpy(&d, &bits, 8);
			if (a->nx < NX) a->x[a->nx++] = d;
			else if (a->no < NO) a->o[a->no++] = bits;
			else a->bad = 1;
			break;
		}
		case 'r':
			break;	/* rendering for the model */
		default:
			a->bad = 1;
		}
	}
}

#define SPREAD(a) (a)->g[0], (a)->g[1], (a)->g[2], (a)->g[3], (a)->g[4], \
	(a)->x[0], (a)->x[1], (a)->x[2], (a)->x[3], (a)->x[4], (a)->x[5], (a)->x[6], (a)->x[7], \
	(a)->o[0], (a)->o[1], (a)->o[2], (a)->o[3], (a)->o[4], (a)->o[5], (a)->o[6], (a)->o[7], \
	(a)->o[8], (a)->o[9], (a)->o[10], (a)->o[11], (a)->o[12], (a)->o[13], (a)->o[14], (a)->o[15], \
	(a)->o[16], (a)->o[17], (a)->o[18], (a)->o[19], (a)->o[20], (a)->o[21], (a)->o[22], (a)->o[23]

static int read_tokens(char **tok)
{
	ssize_t n;
	int nt = 0;
	char *p;
	for (;;) {
		n = getline(&vl_line, &vl_cap, stdin);
		if (n < 0) return -1;
		while (n > 0 && (vl_line[n-1] == '\n' || vl_line[n-1] == '\r' || vl_line[n-1] == ' ')) vl_line[--n] = 0;
		p = vl_line;
		while (*p == ' ') p++;
		if (*p == 0 || *p == '#') continue;
		break;
	}
	while (*p && nt < MAXTOK) {
		tok[nt++] = p;
		while (*p && *p != ' ') p++;
		if (*p) { *p++ = 0; while (*p == ' ') p++; }
	}
	return nt;
}

/* ser: returns malloc'd copy of the first min(ret,maxlen) record bytes in *rec / *reclen */
static int do_ser(size_t maxlen, const char *fmthex, char **argtok, int nargs, unsigned char **rec, size_t *reclen)
{
	struct args a;
	size_t flen, r, n;
	unsigned char *f = vl_unhex(fmthex, &flen);
	char *fmt, *buf;
	if (!f || maxlen == 0) { printf("bad-op\n"); free(f); return -1; }
	fmt = malloc(flen + 1);
	memcpy(fmt, f, flen);
	fmt[flen] = 0;
	free(f);
	parse_args(&a, argtok, nargs, 0);
	if (a.bad) { printf("bad-op\n"); free(fmt); args_free(&a); return -1; }
	buf = malloc(maxlen);
	memset(buf, 0xAA, maxlen);
	g_buf = buf;
	g_max = maxlen;
	r = call_ser(fmt, SPREAD(&a));
	n = r < maxlen ? r : maxlen;
	printf("ser %zu ", r);
	vl_puthex(buf, n);
	printf("\n");
	if (rec) {
		*rec = malloc(n + 1);
		memcpy(*rec, buf, n);
		*reclen = n;
	}
	free(buf);
	free(fmt);
	args_free(&a);
	return 0;
}

static void do_ref(const char *fmthex, char **argtok, int nargs)
{
	struct args a;
	size_t flen;
	unsigned char *f = vl_unhex(fmthex, &flen);
	char *fmt, *buf;
	int r;
	size_t cap = 1 << 16;
	fmt = malloc(flen + 1);
	memcpy(fmt, f, flen);
	fmt[flen] = 0;
	free(f);
	parse_args(&a, argtok, nargs, 1);
	buf = malloc(cap);
	buf[0] = 0;
	g_buf = buf;
	g_max = cap;
	r = call_ref(fmt, SPREAD(&a));
	printf("ref %d ", r);
	if (r < 0) printf("-");
	else vl_puthex(buf, (size_t)r < cap - 1 ? (size_t)r : cap - 1);	/* bytes, may contain NUL (from %c 0) */
	printf("\n");
	free(buf);
	free(fmt);
	args_free(&a);
}

static void do_deser(size_t strlen_, const unsigned char *rec, size_t reclen)
{
	/* the record, followed by zeros (see header comment) */
	size_t padded = reclen + 8 * reclen + 64;
	char *in = calloc(1, padded);
	char *out[2];
	size_t ret[2], maxw = 0;
	int run, any = 0;
	static const unsigned char fill[2] = { 0xAA, 0x55 };
	if (strlen_ == 0) { printf("bad-op\n"); free(in); return; }
	memcpy(in, rec, reclen);
	for (run = 0; run < 2; run++) {
		size_t i;
		out[run] = malloc(strlen_);
		memset(out[run], fill[run], strlen_);
#ifdef SER_ANNOTATE
		ann_on = (run == 0);
		if (run == 0) { ann_len = 0; ann_put("ann", 3); }
#endif
		ret[run] = qb_vsnprintf_deserialize(out[run], strlen_, in);
#ifdef SER_ANNOTATE
		ann_on = 0;
#endif
		for (i = 0; i < strlen_; i++) {
			if ((unsigned char)out[run][i] != fill[run]) {
				any = 1;
				if (i > maxw) maxw = i;
			}
		}
	}
	{
		size_t l0 = strnlen(out[0], strlen_), l1 = strnlen(out[1], strlen_);
		int nondet = (ret[0] != ret[1]) || l0 != l1 || memcmp(out[0], out[1], l0) != 0;
		printf("deser %zu ", ret[0]);
		vl_puthex(out[0], l0);
		if (any) printf(" maxw=%zu", maxw); else printf(" maxw=none");
		if (l0 == strlen_) printf(" unterminated");
		if (nondet) printf(" nondet");
		printf("\n");
	}
#ifdef SER_ANNOTATE
	printf("%s\n", ann_out);
#endif
	free(out[0]);
	free(out[1]);
	free(in);
}

int main(void)
{
	static char *t[MAXTOK];
	int nt;
	VL_INIT();
	while ((nt = read_tokens(t)) >= 0) {
		if (strcmp(t[0], "case") == 0) {
			printf("case %s\n", nt > 1 ? t[1] : "");
		} else if (strcmp(t[0], "ser") == 0 && nt >= 3) {
			do_ser(strtoull(t[1], NULL, 10), t[2], t + 3, nt - 3, NULL, NULL);
		} else if (strcmp(t[0], "deser") == 0 && nt >= 3) {
			size_t len;
			unsigned char *rec = vl_unhex(t[2], &len);
			if (!rec) { printf("bad-op\n"); continue; }
			do_deser(strtoull(t[1], NULL, 10), rec, len);
			free(rec);
		} else if (strcmp(t[0], "rt") == 0 && nt >= 4) {
			unsigned char *rec = NULL;
			size_t len = 0;
			int noref = 0, i;
			const char *reffmt = t[3];
			for (i = 4; i < nt; i++) {
				if (strcmp(t[i], "noref") == 0) noref = 1;
				if (strncmp(t[i], "reffmt:", 7) == 0) reffmt = t[i] + 7;
			}
			if (do_ser(strtoull(t[1], NULL, 10), t[3], t + 4, nt - 4, &rec, &len) == 0) {
				do_deser(strtoull(t[2], NULL, 10), rec, len);
				free(rec);
				if (!noref) do_ref(reffmt, t + 4, nt - 4);
			}
		} else {
			printf("bad-op\n");
		}
	}
	return 0;
}
