/* Schedule-controlled correspondence harness for the logging thread (property C16,
 * mechanism S of DESIGN.md 2.3; no source hooks).
 *
 * The unit under test, lib/log_thread.c, is #included (so that its static state can be
 * snapshotted); everything else of libqb comes from the ASan archive built from /repo
 * (WITHOUT log_thread.o).  The executable defines sem_*, pthread_mutex_*, pthread_spin_*,
 * pthread_create/join/exit itself, which overrides libc for the statically linked library
 * objects: the two semaphores of log_thread.c, the worker lock (the lock created inside
 * qb_log_thread_start) and the worker thread are run by a token-passing scheduler:
 *
 *   - exactly one of the threads C (controller), P (producer), W (libqb's logging thread)
 *     runs; at every schedule point (operation boundary of C/P; sem_wait/sem_post/
 *     sem_getvalue on the two semaphores; lock/unlock of the worker lock; pthread_join of W;
 *     `joinp`) the thread parks and the scheduler picks the next thread from the schedule
 *     string; a thread that cannot proceed (sem value 0, lock held, join of a live thread) is
 *     "not enabled": a schedule character naming it is answered with `skip T`;
 *   - after the schedule string is used up the first enabled thread in the order W, P, C
 *     runs, until no thread is enabled: `end` (C and P finished) or `deadlock`;
 *   - after every step a snapshot line is printed
 *         step T <pc> sem=<v|-> st=<v|-> lock=<null|dead|free|C|P|W> q=<n> mem=<n> drop=<n>
 *     (pc = the point where T parked: idle | done | <op>/<lock|unlock|wait|post|getvalue|join>),
 *     preceded by the events of the step:  `log SEQ LEN e=<0|1> t=<0|1>`, `write SEQ`,
 *     `<n> messages lost` (printed by the library itself), `ret T <op>`.
 *
 * Input, per case:   case ID, then any number of lines  `C op ...`  `P op ...`  `s CPW...`
 * (appended to C's program, P's program, the schedule); the case runs at the next `case` / EOF.
 *   ops of C:  init open threaded:B enable:B ctl start startfail log:LEN fini joinp      ops of P: log:LEN
 *   (startfail = qb_log_thread_start with the worker's pthread_create failing with EAGAIN)
 * Each case runs in a forked child (fresh static state); a sanitizer abort / crash of the
 * child is printed by the parent as a final line SAN:null | SAN:uaf | ... | CRASH:n | TIMEOUT.
 */
#include "os_base.h"
#include <pthread.h>
#include <semaphore.h>
#include <dlfcn.h>
#include <signal.h>
#include <ctype.h>
#include <sys/wait.h>
#include <syslog.h>
#include <qb/qbdefs.h>
#include <qb/qblog.h>
#include "log_int.h"
#include "lineio.h"

#include "log_thread.c"		/* the unit under test: /repo/lib/log_thread.c (via -I/repo/lib) */

/* ------------------------------------------------------------------ real libc entry points */
static int (*r_sem_init)(sem_t *, int, unsigned);
static int (*r_sem_wait)(sem_t *);
static int (*r_sem_post)(sem_t *);
static int (*r_sem_getvalue)(sem_t *, int *);
static int (*r_sem_destroy)(sem_t *);
static int (*r_sem_timedwait)(sem_t *, const struct timespec *);
static int (*r_mutex_init)(pthread_mutex_t *, const pthread_mutexattr_t *);
static int (*r_mutex_lock)(pthread_mutex_t *);
static int (*r_mutex_trylock)(pthread_mutex_t *);
static int (*r_mutex_unlock)(pthread_mutex_t *);
static int (*r_mutex_destroy)(pthread_mutex_t *);
static int (*r_spin_init)(pthread_spinlock_t *, int);
static int (*r_spin_lock)(pthread_spinlock_t *);
static int (*r_spin_unlock)(pthread_spinlock_t *);
static int (*r_spin_destroy)(pthread_spinlock_t *);
static int (*r_create)(pthread_t *, const pthread_attr_t *, void *(*)(void *), void *);
static int (*r_join)(pthread_t, void **);
static void (*r_exit)(void *);

#define REAL(var, name) do { if (!(var)) *(void **)(&(var)) = dlsym(RTLD_NEXT, name); } while (0)

/* ------------------------------------------------------------------ scheduler state */
enum { T_C = 0, T_P = 1, T_W = 2, NT = 3 };
static const char TN[NT + 1] = "CPW";
enum kind { K_NONE, K_OP, K_LOCK, K_UNLOCK, K_WAIT, K_POST, K_GETVALUE, K_JOIN, K_JOINP };
static const char *KN[] = { "none", "idle", "lock", "unlock", "wait", "post", "getvalue", "join", "joinp" };

#define MAXOPS 4096
struct op { char name[12]; int arg; };
struct thr {
	int id;
	int created;		/* a real thread exists for this slot */
	int done;		/* it has finished (program exhausted / pthread_exit / return) */
	int fresh;		/* has not parked yet: first park is announced on child_ready */
	enum kind pend;		/* schedule point it is parked at */
	void *obj;		/* object of the pending call */
	const char *op;		/* operation being executed (C, P) */
	sem_t go;
	pthread_t tid;
	void *(*fn)(void *);
	void *arg;
	struct op *ops;
	int nops;
};
static struct thr T[NT];
static __thread struct thr *me;
static sem_t sched_sem, child_ready;

/* virtual semaphores / lock */
struct vsem { sem_t *addr; int live; int val; };
static struct vsem VS[2];
static void *wl_addr;		/* address of the pthread object inside the worker lock */
static int wl_live;
static int wl_owner = -1;
static int in_start;		/* C is inside qb_log_thread_start(): the lock/thread created now are the worker's */
static int fail_create;		/* fault injection: the next pthread_create of the worker fails with EAGAIN */

static int g_inited, g_tgt = -1, g_seq;
static int g_len[65536];

static struct vsem *vsem_of(sem_t *s)
{
	if (s == VS[0].addr) return &VS[0];
	if (s == VS[1].addr) return &VS[1];
	return NULL;
}

static void harness_fail(const char *what)
{
	printf("%s\n", what);
	_exit(0);
}

static void announce(void)
{
	REAL(r_sem_post, "sem_post");
	if (me->fresh) {
		me->fresh = 0;
		r_sem_post(&child_ready);
	} else {
		r_sem_post(&sched_sem);
	}
}

static void park(enum kind k, void *obj)
{
	REAL(r_sem_wait, "sem_wait");
	me->pend = k;
	me->obj = obj;
	announce();
	while (r_sem_wait(&me->go) == -1 && errno == EINTR) ;
}

static void finish_thread(void)
{
	me->done = 1;
	me->pend = K_NONE;
	announce();
}

/* ------------------------------------------------------------------ interposed: semaphores */
int sem_init(sem_t *s, int pshared, unsigned value)
{
	struct vsem *v = vsem_of(s);
	REAL(r_sem_init, "sem_init");
	if (!me || !v) return r_sem_init(s, pshared, value);
	v->live = 1;
	v->val = (int)value;
	return 0;
}

int sem_destroy(sem_t *s)
{
	struct vsem *v = vsem_of(s);
	REAL(r_sem_destroy, "sem_destroy");
	if (!me || !v) return r_sem_destroy(s);
	if (!v->live) harness_fail("SAN:badsem");
	v->live = 0;
	return 0;
}

int sem_wait(sem_t *s)
{
	struct vsem *v = vsem_of(s);
	REAL(r_sem_wait, "sem_wait");
	if (!me || !v) return r_sem_wait(s);
	park(K_WAIT, s);
	if (!v->live) harness_fail("SAN:badsem");
	if (v->val <= 0) harness_fail("HARNESS-BUG sem_wait scheduled at 0");
	v->val--;
	return 0;
}

int sem_timedwait(sem_t *s, const struct timespec *ts)
{
	struct vsem *v = vsem_of(s);
	REAL(r_sem_timedwait, "sem_timedwait");
	if (!me || !v) return r_sem_timedwait(s, ts);
	return sem_wait(s);
}

int sem_post(sem_t *s)
{
	struct vsem *v = vsem_of(s);
	REAL(r_sem_post, "sem_post");
	if (!me || !v) return r_sem_post(s);
	park(K_POST, s);
	if (!v->live) harness_fail("SAN:badsem");
	v->val++;
	return 0;
}

int sem_getvalue(sem_t *s, int *out)
{
	struct vsem *v = vsem_of(s);
	REAL(r_sem_getvalue, "sem_getvalue");
	if (!me || !v) return r_sem_getvalue(s, out);
	park(K_GETVALUE, s);
	if (!v->live) harness_fail("SAN:badsem");
	*out = v->val;
	return 0;
}

/* ------------------------------------------------------------------ interposed: the worker lock */
static int vl_init(void *addr)
{
	if (me == &T[T_C] && in_start) {
		wl_addr = addr;
		wl_live = 1;
		wl_owner = -1;
		return 1;
	}
	return 0;
}

static int vl_mine(void *addr)
{
	return me && wl_addr && addr == wl_addr;
}

static int vl_lock(void)
{
	park(K_LOCK, wl_addr);
	if (!wl_live) harness_fail("SAN:uaf");	/* destroyed while this thread was waiting for it */
	if (wl_owner != -1) harness_fail("HARNESS-BUG lock scheduled while held");
	wl_owner = me->id;
	return 0;
}

static int vl_unlock(void)
{
	park(K_UNLOCK, wl_addr);
	if (!wl_live) harness_fail("SAN:uaf");
	if (wl_owner != me->id) harness_fail("SAN:badunlock");
	wl_owner = -1;
	return 0;
}

static void vl_destroy(void)
{
	if (wl_owner != -1) harness_fail("SAN:destroy-held");
	wl_live = 0;
	wl_addr = NULL;
}

int pthread_mutex_init(pthread_mutex_t *m, const pthread_mutexattr_t *a)
{
	REAL(r_mutex_init, "pthread_mutex_init");
	(void)vl_init(m);
	return r_mutex_init(m, a);
}

int pthread_mutex_lock(pthread_mutex_t *m)
{
	REAL(r_mutex_lock, "pthread_mutex_lock");
	if (vl_mine(m)) return vl_lock();
	return r_mutex_lock(m);
}

int pthread_mutex_trylock(pthread_mutex_t *m)
{
	REAL(r_mutex_trylock, "pthread_mutex_trylock");
	if (vl_mine(m)) harness_fail("HARNESS-BUG trylock on the worker lock");
	return r_mutex_trylock(m);
}

int pthread_mutex_unlock(pthread_mutex_t *m)
{
	REAL(r_mutex_unlock, "pthread_mutex_unlock");
	if (vl_mine(m)) return vl_unlock();
	return r_mutex_unlock(m);
}

int pthread_mutex_destroy(pthread_mutex_t *m)
{
	REAL(r_mutex_destroy, "pthread_mutex_destroy");
	if (vl_mine(m)) vl_destroy();
	return r_mutex_destroy(m);
}

int pthread_spin_init(pthread_spinlock_t *l, int ps)
{
	REAL(r_spin_init, "pthread_spin_init");
	(void)vl_init((void *)l);
	return r_spin_init(l, ps);
}

int pthread_spin_lock(pthread_spinlock_t *l)
{
	REAL(r_spin_lock, "pthread_spin_lock");
	if (vl_mine((void *)l)) return vl_lock();
	return r_spin_lock(l);
}

int pthread_spin_unlock(pthread_spinlock_t *l)
{
	REAL(r_spin_unlock, "pthread_spin_unlock");
	if (vl_mine((void *)l)) return vl_unlock();
	return r_spin_unlock(l);
}

int pthread_spin_destroy(pthread_spinlock_t *l)
{
	REAL(r_spin_destroy, "pthread_spin_destroy");
	if (vl_mine((void *)l)) vl_destroy();
	return r_spin_destroy(l);
}

/* ------------------------------------------------------------------ interposed: threads */
static void *tramp(void *p)
{
	void *r;
	me = p;
	r = me->fn(me->arg);
	finish_thread();
	return r;
}

static int spawn(struct thr *t, pthread_t *out, const pthread_attr_t *a, void *(*fn)(void *), void *arg)
{
	int rc;
	pthread_t tid;
	REAL(r_create, "pthread_create");
	REAL(r_sem_wait, "sem_wait");
	REAL(r_sem_init, "sem_init");
	t->created = 1;
	t->done = 0;
	t->fresh = 1;
	t->pend = K_NONE;
	t->fn = fn;
	t->arg = arg;
	r_sem_init(&t->go, 0, 0);
	rc = r_create(&tid, a, tramp, t);
	if (rc != 0) {
		t->created = 0;
		return rc;
	}
	t->tid = tid;
	if (out) *out = tid;
	while (r_sem_wait(&child_ready) == -1 && errno == EINTR) ;	/* runs up to its first schedule point */
	return 0;
}

int pthread_create(pthread_t *t, const pthread_attr_t *a, void *(*fn)(void *), void *arg)
{
	REAL(r_create, "pthread_create");
	if (me == &T[T_C] && in_start) {
		if (fail_create) return EAGAIN;
		if (T[T_W].created) harness_fail("HARNESS-BUG second worker thread");
		return spawn(&T[T_W], t, a, fn, arg);
	}
	return r_create(t, a, fn, arg);
}

int pthread_join(pthread_t t, void **ret)
{
	int rc;
	REAL(r_join, "pthread_join");
	if (me && T[T_W].created && pthread_equal(t, T[T_W].tid)) {
		park(K_JOIN, NULL);
		rc = r_join(t, ret);
		T[T_W].created = 0;
		T[T_W].done = 0;
		return rc;
	}
	return r_join(t, ret);
}

void pthread_exit(void *r)
{
	REAL(r_exit, "pthread_exit");
	if (me && !me->done) finish_thread();
	r_exit(r);
	abort();
}

/* ------------------------------------------------------------------ the custom target */
static void logger_cb(int32_t t, struct qb_log_callsite *cs, struct timespec *ts, const char *msg)
{
	int seq = -1;
	if (msg[0] == 'm') seq = atoi(msg + 1);
	if (seq >= 0 && seq < 65536 && g_len[seq] == (int)strlen(msg)) printf("write %d\n", seq);
	else printf("write %d damaged\n", seq);
}

static void close_cb(int32_t t)
{
}

#define SLOT QB_LOG_TARGET_DYNAMIC_START

/* ------------------------------------------------------------------ operations of C and P */
static void do_log(int len)
{
	static char text[QB_LOG_ABSOLUTE_MAX_LEN + 8];
	struct qb_log_target *t = qb_log_target_get(SLOT);
	int seq = g_seq++;
	int n;
	if (len < 8) len = 8;
	if (len > QB_LOG_ABSOLUTE_MAX_LEN - 1) len = QB_LOG_ABSOLUTE_MAX_LEN - 1;
	printf("log %d %d e=%d t=%d\n", seq, len,
	       (g_inited && g_tgt >= 0 && t->state == QB_LOG_STATE_ENABLED) ? 1 : 0, t->threaded ? 1 : 0);
	n = snprintf(text, sizeof text, "m%d ", seq);
	memset(text + n, 'x', len - n);
	text[len] = 0;
	g_len[seq & 65535] = len;
	qb_log_from_external_source(__func__, "logt_sched.c", "%s", LOG_INFO, 1 + seq, 0, text);
}

static void do_op(struct op *o)
{
	if (strcmp(o->name, "init") == 0) {
		if (!g_inited) {
			qb_log_init("logt", LOG_USER, LOG_EMERG);
			(void)qb_log_ctl(QB_LOG_SYSLOG, QB_LOG_CONF_ENABLED, QB_FALSE);
			g_inited = 1;
			g_tgt = -1;
		}
	} else if (strcmp(o->name, "open") == 0) {
		if (g_inited && g_tgt < 0) {
			g_tgt = qb_log_custom_open(logger_cb, close_cb, NULL, NULL);
			if (g_tgt != SLOT) harness_fail("HARNESS-BUG custom target slot");
			(void)qb_log_filter_ctl(g_tgt, QB_LOG_FILTER_ADD, QB_LOG_FILTER_FILE, "*", LOG_TRACE);
			qb_log_target_get(g_tgt)->max_line_length = QB_LOG_ABSOLUTE_MAX_LEN;
		}
	} else if (strcmp(o->name, "threaded") == 0) {
		(void)qb_log_ctl(SLOT, QB_LOG_CONF_THREADED, o->arg ? QB_TRUE : QB_FALSE);
	} else if (strcmp(o->name, "enable") == 0) {
		(void)qb_log_ctl(SLOT, QB_LOG_CONF_ENABLED, o->arg ? QB_TRUE : QB_FALSE);
	} else if (strcmp(o->name, "ctl") == 0) {
		(void)qb_log_ctl(SLOT, QB_LOG_CONF_FILE_SYNC, QB_TRUE);
	} else if (strcmp(o->name, "start") == 0) {
		in_start = 1;
		(void)qb_log_thread_start();
		in_start = 0;
	} else if (strcmp(o->name, "startfail") == 0) {
		in_start = 1;
		fail_create = 1;
		(void)qb_log_thread_start();
		fail_create = 0;
		in_start = 0;
	} else if (strcmp(o->name, "log") == 0) {
		do_log(o->arg);
	} else if (strcmp(o->name, "fini") == 0) {
		qb_log_fini();
		g_inited = 0;
	} else if (strcmp(o->name, "joinp") == 0) {
		park(K_JOINP, NULL);
	} else {
		harness_fail("bad-op");
	}
}

static void *app_thread(void *arg)
{
	struct thr *t = arg;
	int i;
	for (i = 0; i < t->nops; i++) {
		t->op = NULL;
		park(K_OP, NULL);
		t->op = t->ops[i].name;
		do_op(&t->ops[i]);
		printf("ret %c %s\n", TN[t->id], t->ops[i].name);
	}
	t->op = NULL;
	return NULL;
}

/* ------------------------------------------------------------------ scheduler */
static int enabled(struct thr *t)
{
	struct vsem *v;
	if (!t->created || t->done) return 0;
	switch (t->pend) {
	case K_OP: case K_UNLOCK: case K_POST: case K_GETVALUE: return 1;
	case K_LOCK: return !wl_live || wl_owner == -1;
	case K_WAIT: v = vsem_of(t->obj); return !v->live || v->val > 0;
	case K_JOIN: return T[T_W].done;
	case K_JOINP: return !T[T_P].created || T[T_P].done;
	default: return 0;
	}
}

static void put_sem(const char *k, struct vsem *v)
{
	if (v->live) printf(" %s=%d", k, v->val); else printf(" %s=-", k);
}

static void snapshot(struct thr *t)
{
	struct qb_list_head *it;
	int q = 0;
	printf("step %c ", TN[t->id]);
	if (t->done) printf("done");
	else if (t->id == T_W || t->pend == K_OP) printf("%s", KN[t->pend]);
	else printf("%s/%s", t->op ? t->op : "?", KN[t->pend]);
	put_sem("sem", &VS[1]);
	put_sem("st", &VS[0]);
	if (logt_wthread_lock == NULL) printf(" lock=null");
	else if (!wl_live) printf(" lock=dead");
	else if (wl_owner < 0) printf(" lock=free");
	else printf(" lock=%c", TN[wl_owner]);
	qb_list_for_each(it, &logt_print_finished_records) q++;
	printf(" q=%d mem=%d drop=%d\n", q, logt_memory_used, logt_dropped_messages);
}

static void add_ops(char **tok, int nt, struct thr *t)
{
	int i;
	t->ops = realloc(t->ops, (size_t)(t->nops + nt + 1) * sizeof(struct op));
	for (i = 1; i < nt; i++) {
		char *c = strchr(tok[i], ':');
		struct op *o = &t->ops[t->nops++];
		memset(o, 0, sizeof *o);
		if (c) { *c = 0; o->arg = atoi(c + 1); }
		snprintf(o->name, sizeof o->name, "%s", tok[i]);
	}
}

static void run_case(const char *sched)
{
	size_t i = 0, n = strlen(sched);
	long steps = 0;
	int k;
	REAL(r_sem_init, "sem_init");
	REAL(r_sem_post, "sem_post");
	REAL(r_sem_wait, "sem_wait");
	r_sem_init(&sched_sem, 0, 0);
	r_sem_init(&child_ready, 0, 0);
	VS[0].addr = &logt_thread_start;
	VS[1].addr = &logt_print_finished;
	for (k = 0; k < NT; k++) T[k].id = k;
	for (k = 0; k < 2; k++) {
		if (T[k].nops == 0) { T[k].created = 0; T[k].done = 1; continue; }
		if (spawn(&T[k], NULL, NULL, app_thread, &T[k]) != 0) harness_fail("HARNESS-BUG cannot create thread");
	}
	for (;;) {
		struct thr *t = NULL;
		if (i < n) {
			char c = sched[i++];
			const char *p = strchr(TN, c);
			if (!p || !*p) continue;
			t = &T[p - TN];
			if (!enabled(t)) { printf("skip %c\n", c); continue; }
		} else {
			static const int order[NT] = { T_W, T_P, T_C };
			for (k = 0; k < NT; k++) if (enabled(&T[order[k]])) { t = &T[order[k]]; break; }
			if (!t) break;
		}
		if (++steps > 2000000) harness_fail("HARNESS-BUG step limit");
		r_sem_post(&t->go);
		while (r_sem_wait(&sched_sem) == -1 && errno == EINTR) ;
		snapshot(t);
	}
	{
		struct qb_list_head *it;
		int q = 0;
		int fin = (T[T_C].done || T[T_C].nops == 0) && (T[T_P].done || T[T_P].nops == 0);
		qb_list_for_each(it, &logt_print_finished_records) q++;
		printf("%s q=%d mem=%d drop=%d\n", fin ? "end" : "deadlock", q, logt_memory_used, logt_dropped_messages);
	}
}

/* ------------------------------------------------------------------ parent: one child per case */
static void classify(const char *err, int status)
{
	const char *p = strstr(err, "ERROR: AddressSanitizer: ");
	if (p) {
		p += strlen("ERROR: AddressSanitizer: ");
		if (!strncmp(p, "heap-use-after-free", 19) || !strncmp(p, "double-free", 11) || !strncmp(p, "attempting", 10))
			printf("SAN:uaf\n");
		else if (!strncmp(p, "SEGV", 4)) {
			const char *a = strstr(p, "address 0x0000000000");
			if ((a && isxdigit((unsigned char)a[20]) && isxdigit((unsigned char)a[21]) && !isxdigit((unsigned char)a[22]))
			    || strstr(p, "zero page"))
				printf("SAN:null\n");
			else
				printf("SAN:segv\n");
		} else if (!strncmp(p, "ABRT", 4)) printf("SAN:abort\n");
		else printf("SAN:oob\n");
	} else if (strstr(err, "runtime error:") && strstr(err, "null pointer")) printf("SAN:null\n");
	else if (strstr(err, "runtime error:")) printf("SAN:ub\n");
	else if (strstr(err, "Assertion") && strstr(err, "failed")) printf("SAN:abort\n");
	else if (WIFSIGNALED(status) && WTERMSIG(status) == SIGALRM) printf("TIMEOUT\n");
	else if (WIFSIGNALED(status)) printf("CRASH:%d\n", WTERMSIG(status));
	else printf("CRASH:rc%d\n", WEXITSTATUS(status));
}

static void fork_case(const char *sched)
{
	int pfd[2];
	pid_t pid;
	int status = 0;
	static char err[65536];
	size_t n = 0;
	ssize_t r;
	if (pipe(pfd) != 0) { printf("HARNESS-BUG pipe\n"); return; }
	pid = fork();
	if (pid == 0) {
		close(pfd[0]);
		dup2(pfd[1], 2);
		close(pfd[1]);
		alarm(60);
		run_case(sched);
		_exit(0);
	}
	close(pfd[1]);
	while ((r = read(pfd[0], err + n, sizeof err - 1 - n)) > 0) {
		n += (size_t)r;
		if (n >= sizeof err - 1) {
			char sink[4096];
			while (read(pfd[0], sink, sizeof sink) > 0) ;
			break;
		}
	}
	err[n] = 0;
	close(pfd[0]);
	while (waitpid(pid, &status, 0) < 0 && errno == EINTR) ;
	if (!(WIFEXITED(status) && WEXITSTATUS(status) == 0)) {
		classify(err, status);
		if (getenv("LOGT_VERBOSE")) fputs(err, stderr);
	}
}

int main(void)
{
	static char *big[MAXOPS + 2];
	int nt;
	int have = 0;
	char *sched = NULL;
	VL_INIT();
	for (;;) {
		/* like vl_read, with room for long programs */
		ssize_t n;
		char *p;
		nt = -1;
		for (;;) {
			n = getline(&vl_line, &vl_cap, stdin);
			if (n < 0) break;
			while (n > 0 && (vl_line[n-1] == '\n' || vl_line[n-1] == '\r' || vl_line[n-1] == ' ')) vl_line[--n] = 0;
			p = vl_line;
			while (*p == ' ') p++;
			if (*p == 0 || *p == '#') continue;
			nt = 0;
			while (*p && nt < MAXOPS) {
				big[nt++] = p;
				while (*p && *p != ' ') p++;
				if (*p) { *p++ = 0; while (*p == ' ') p++; }
			}
			break;
		}
		if (nt < 0 || strcmp(big[0], "case") == 0) {
			if (have) fork_case(sched ? sched : "");
			have = 0;
			free(sched); sched = NULL;
			free(T[T_C].ops); free(T[T_P].ops);
			memset(T, 0, sizeof T);
			if (nt < 0) break;
			printf("case %s\n", nt > 1 ? big[1] : "");
		} else if (strcmp(big[0], "C") == 0 || strcmp(big[0], "C:") == 0) {
			add_ops(big, nt, &T[T_C]); have = 1;
		} else if (strcmp(big[0], "P") == 0 || strcmp(big[0], "P:") == 0) {
			add_ops(big, nt, &T[T_P]); have = 1;
		} else if (strcmp(big[0], "s") == 0 || strcmp(big[0], "sched") == 0) {
			size_t a = sched ? strlen(sched) : 0, b = nt > 1 ? strlen(big[1]) : 0;
			sched = realloc(sched, a + b + 1);
			if (b) memcpy(sched + a, big[1], b);
			sched[a + b] = 0;
			have = 1;
		} else {
			printf("bad-op\n");
		}
	}
	return 0;
}
