/*
 * C13 harness: drives the REAL lib/log_format.c (included below, so the static helper
 * _strcpy_cutoff is reachable and getpid/gethostname can be pinned) and, for the `log` op,
 * the real lib/log.c / log_file.c / log_syslog.c through the public API.
 *
 * Output buffers handed to the formatting functions are EXACTLY as large as stated:
 * they sit at the end of a heap block (ASan red zone starts at the first byte after them)
 * and directly after a manually poisoned guard region (first byte before them is reported).
 * Every formatting call is made twice with different fill bytes, so the set of bytes really
 * written inside the buffer is known exactly (written <=> equal in both runs).
 *
 * Op lines (DESIGN.md Appendix A, `logfmt`), all strings hex ("-" = empty):
 *   fmt MAXLEN ELL FORMAT fn=H file=H line=N prio=N msg=H ts=SEC:NSEC t=H T=H tags=H|none [cap=N]
 *        -> `HEX nul=K maxw=I` | `NONUL HEX maxw=I` | `EINVAL` (control API refused MAXLEN)
 *   static MAXLEN OUTCAP FORMAT name=H pid=N host=H|fail      -> same
 *   fset MAXLEN FORMAT name=H pid=N host=H|fail               -> `HEX` (the stored target format)
 *   cut CAP SRC CUTOFF RALIGN BUFLEN                           -> `RET HEX nul=K maxw=I` | `RET NONUL HEX maxw=I`
 *        (BUFLEN >= 1; `EDOM` for BUFLEN 0, which no caller of the static helper can pass)
 *   log mc=N|off mf=N|off ms=N|off ell=B ext=B old=B ffmt=H pf=H sh=SHAPE a=.. prio=N line=N tags=N
 *        fn=H file=H name=H pid=N host=H exp=H
 *        -> `c=HEX|none f=HEX|none s=HEX|none o=HEX|none`
 */
#include "os_base.h"
#include <ctype.h>
#include <stdarg.h>
#include <syslog.h>
#include <qb/qbdefs.h>
#include <qb/qblist.h>
#include <qb/qblog.h>
#include <qb/qbutil.h>
#include <qb/qbrb.h>
#include <regex.h>
#include "log_int.h"
#include "lineio.h"
#if defined(__SANITIZE_ADDRESS__)
#include <sanitizer/asan_interface.h>
#else
#define ASAN_POISON_MEMORY_REGION(a, s) ((void)(a), (void)(s))
#define ASAN_UNPOISON_MEMORY_REGION(a, s) ((void)(a), (void)(s))
#endif

/* ---- pinned libc results used by the static directives %P and %H ---------------------- */
static long v_pid = 4242;
static unsigned char *v_host = NULL;
static size_t v_hostlen = 0;
static int v_hostfail = 0;

static pid_t verif_getpid(void)
{
	return (pid_t)v_pid;
}

/* POSIX: on truncation it is unspecified whether the result is NUL-terminated; we do not
 * terminate, which is the hardest case for the caller */
static int verif_gethostname(char *name, size_t len)
{
	size_t n = v_hostlen;
	if (v_hostfail) {
		errno = EFAULT;
		return -1;
	}
	if (n >= len) {
		memcpy(name, v_host, len);
	} else {
		memcpy(name, v_host, n);
		name[n] = 0;
	}
	return 0;
}

#define getpid verif_getpid
#define gethostname verif_gethostname
#include "log_format.c"
#undef getpid
#undef gethostname

/* ---- captured syslog ------------------------------------------------------------------ */
static char *sys_cap = NULL;
static void sys_capture(const char *fmt, va_list ap)
{
	va_list c;
	int n;
	va_copy(c, ap);
	n = vsnprintf(NULL, 0, fmt, c);
	va_end(c);
	free(sys_cap);
	sys_cap = malloc((size_t)n + 1);
	vsnprintf(sys_cap, (size_t)n + 1, fmt, ap);
}
void syslog(int pri, const char *fmt, ...)
{
	va_list ap;
	va_start(ap, fmt);
	sys_capture(fmt, ap);
	va_end(ap);
}
void __syslog_chk(int pri, int flag, const char *fmt, ...)
{
	va_list ap;
	va_start(ap, fmt);
	sys_capture(fmt, ap);
	va_end(ap);
}
void openlog(const char *ident, int option, int facility) { }
void closelog(void) { }

/* ---- exactly sized, guarded buffers ---------------------------------------------------- */
#define GUARD 64
static char *gbuf_alloc(size_t cap)
{
	char *blk = malloc(GUARD + cap);
	if (blk == NULL) { fprintf(stderr, "harness: malloc failed\n"); exit(3); }
	ASAN_POISON_MEMORY_REGION(blk, GUARD);
	return blk + GUARD;
}
static void gbuf_free(char *p)
{
	ASAN_UNPOISON_MEMORY_REGION(p - GUARD, GUARD);
	free(p - GUARD);
}
/* C string in a block of exactly strlen+1 bytes */
static char *xstr(const char *hex)
{
	size_t n;
	unsigned char *b = vl_unhex(hex, &n);
	char *s;
	if (b == NULL) return NULL;
	s = malloc(n + 1);
	memcpy(s, b, n);
	s[n] = 0;
	free(b);
	return s;
}
static const char *kv(char **tok, int nt, const char *key)
{
	size_t kl = strlen(key);
	int i;
	for (i = 0; i < nt; i++) {
		if (strncmp(tok[i], key, kl) == 0 && tok[i][kl] == '=') return tok[i] + kl + 1;
	}
	return NULL;
}

static void report(char *a, char *b, size_t cap)
{
	long maxw = -1;
	size_t i;
	char *z = cap ? memchr(a, 0, cap) : NULL;
	for (i = 0; i < cap; i++) if (a[i] == b[i]) maxw = (long)i;
	if (z) {
		vl_puthex(a, (size_t)(z - a));
		printf(" nul=%ld maxw=%ld\n", (long)(z - a), maxw);
	} else {
		printf("NONUL ");
		vl_puthex(a, cap);
		printf(" maxw=%ld\n", maxw);
	}
}

/* ---- targets ---------------------------------------------------------------------------- */
static int32_t tC = -1, tLC = -1, tLF = -1;
static char *cap_c = NULL, *cap_o = NULL;
static char fpath[PATH_MAX];
static const char *v_tags = NULL;

static const char *tags_fn(uint32_t tags) { return v_tags; }

static void c_logger(int32_t t, struct qb_log_callsite *cs, struct timespec *ts, const char *msg)
{
	free(cap_c);
	cap_c = strdup(msg);
}
static void old_fn(const char *file, int32_t line, int32_t sev, const char *msg)
{
	free(cap_o);
	cap_o = strdup(msg);
}

static int set_len(int32_t t, long maxlen, int ell)
{
	int32_t rc = qb_log_ctl(t, QB_LOG_CONF_MAX_LINE_LEN, (int32_t)maxlen);
	if (rc != 0) {
		printf("%s\n", vl_errname(rc));
		return -1;
	}
	(void)qb_log_ctl(t, QB_LOG_CONF_ELLIPSIS, ell);
	return 0;
}
static size_t cap_for(long maxlen, const char *capkv)
{
	if (capkv) return (size_t)atol(capkv);
	if (maxlen < 0) return 0;
	if (maxlen > 8192) return 8192;
	return (size_t)maxlen;
}
static void set_static_env(char **tok, int nt)
{
	const char *s;
	struct qb_log_target *t;
	size_t n;
	if ((s = kv(tok, nt, "pid"))) v_pid = atol(s);
	if ((s = kv(tok, nt, "host"))) {
		free(v_host);
		v_host = NULL;
		v_hostlen = 0;
		v_hostfail = 0;
		if (strcmp(s, "fail") == 0) v_hostfail = 1;
		else v_host = vl_unhex(s, &v_hostlen);
	}
	if ((s = kv(tok, nt, "name"))) {
		unsigned char *b = vl_unhex(s, &n);
		int i;
		if (n > PATH_MAX - 1) n = PATH_MAX - 1;
		for (i = 0; i < QB_LOG_TARGET_MAX; i++) {
			t = qb_log_target_get(i);
			memcpy(t->name, b, n);
			t->name[n] = 0;
		}
		free(b);
	}
}

static void op_fmt(char **tok, int nt)
{
	long maxlen = atol(tok[1]);
	int ell = atoi(tok[2]), pass;
	struct qb_log_target *t = qb_log_target_get(tC);
	struct qb_log_callsite cs;
	struct timespec ts;
	const char *s;
	char *fn, *file, *msg, *out[2];
	size_t cap;
	if (set_len(tC, maxlen, ell) < 0) return;
	cap = cap_for(maxlen, kv(tok, nt, "cap"));
	memset(&cs, 0, sizeof cs);
	fn = xstr(kv(tok, nt, "fn") ? kv(tok, nt, "fn") : "-");
	file = xstr(kv(tok, nt, "file") ? kv(tok, nt, "file") : "-");
	msg = xstr(kv(tok, nt, "msg") ? kv(tok, nt, "msg") : "-");
	cs.function = fn;
	cs.filename = file;
	cs.format = "";
	cs.lineno = (s = kv(tok, nt, "line")) ? (uint32_t)strtoul(s, NULL, 10) : 0;
	cs.priority = (s = kv(tok, nt, "prio")) ? (uint8_t)atoi(s) : 6;
	ts.tv_sec = 0;
	ts.tv_nsec = 0;
	if ((s = kv(tok, nt, "ts"))) {
		ts.tv_sec = (time_t)atoll(s);
		s = strchr(s, ':');
		ts.tv_nsec = s ? atol(s + 1) : 0;
	}
	s = kv(tok, nt, "tags");
	free((void *)v_tags);
	v_tags = NULL;
	if (s && strcmp(s, "none") != 0) {
		v_tags = xstr(s);
		qb_log_tags_stringify_fn_set(tags_fn);
	} else {
		qb_log_tags_stringify_fn_set(NULL);
	}
	free(t->format);
	t->format = xstr(tok[3]);
	for (pass = 0; pass < 2; pass++) {
		out[pass] = gbuf_alloc(cap);
		memset(out[pass], pass ? 0x55 : 0xAA, cap);
		qb_log_target_format(tC, &cs, &ts, msg, out[pass]);
	}
	report(out[0], out[1], cap);
	gbuf_free(out[0]);
	gbuf_free(out[1]);
	free(fn);
	free(file);
	free(msg);
}

static void op_static(char **tok, int nt, int viaset)
{
	long maxlen = atol(tok[1]);
	char *fmt, *out[2];
	size_t cap;
	int pass;
	if (set_len(tC, maxlen, 0) < 0) return;
	set_static_env(tok, nt);
	if (viaset) {
		struct qb_log_target *t = qb_log_target_get(tC);
		fmt = xstr(tok[2]);
		qb_log_format_set(tC, fmt);
		vl_puthex(t->format, strlen(t->format));
		printf("\n");
		free(fmt);
		return;
	}
	cap = (size_t)atol(tok[2]);
	fmt = xstr(tok[3]);
	for (pass = 0; pass < 2; pass++) {
		out[pass] = gbuf_alloc(cap);
		memset(out[pass], pass ? 0x55 : 0xAA, cap);
		qb_log_target_format_static(tC, fmt, out[pass]);
	}
	report(out[0], out[1], cap);
	gbuf_free(out[0]);
	gbuf_free(out[1]);
	free(fmt);
}

static void op_cut(char **tok, int nt)
{
	size_t cap = (size_t)atol(tok[1]);
	char *src = xstr(tok[2]);
	size_t cutoff = (size_t)strtoull(tok[3], NULL, 10);
	int ralign = atoi(tok[4]);
	size_t buflen = (size_t)strtoull(tok[5], NULL, 10);
	char *out[2];
	int pass, ret = 0;
	if (buflen == 0) {
		/* outside the domain of the static helper: both callers leave their loop at
		 * idx >= max_line_length - 1, so buf_len >= 2 (Props.C13.caller_buf_len_ge_two) */
		printf("EDOM\n");
		free(src);
		return;
	}
	for (pass = 0; pass < 2; pass++) {
		out[pass] = gbuf_alloc(cap);
		memset(out[pass], pass ? 0x55 : 0xAA, cap);
		ret = _strcpy_cutoff(out[pass], src, cutoff, ralign, buflen);
	}
	printf("%d ", ret);
	report(out[0], out[1], cap);
	gbuf_free(out[0]);
	gbuf_free(out[1]);
	free(src);
}

/* printf-style call with up to three arguments, each a string or an int */
static void do_log(const char *fn, const char *file, const char *pf, uint8_t prio, uint32_t line,
		   uint32_t tags, const char *sh, char **sa, int *ia)
{
#define A(i) (sh[i] == 's' ? 1 : 0)
#define CALL(...) qb_log_from_external_source(fn, file, pf, prio, line, tags, __VA_ARGS__)
	size_t n = strlen(sh);
	if (n == 0) { qb_log_from_external_source(fn, file, pf, prio, line, tags); return; }
	if (n == 1) { if (A(0)) CALL(sa[0]); else CALL(ia[0]); return; }
	if (n == 2) {
		if (A(0) && A(1)) CALL(sa[0], sa[1]);
		else if (A(0)) CALL(sa[0], ia[1]);
		else if (A(1)) CALL(ia[0], sa[1]);
		else CALL(ia[0], ia[1]);
		return;
	}
	if (A(0) && A(1) && A(2)) CALL(sa[0], sa[1], sa[2]);
	else if (A(0) && A(1)) CALL(sa[0], sa[1], ia[2]);
	else if (A(0) && A(2)) CALL(sa[0], ia[1], sa[2]);
	else if (A(0)) CALL(sa[0], ia[1], ia[2]);
	else if (A(1) && A(2)) CALL(ia[0], sa[1], sa[2]);
	else if (A(1)) CALL(ia[0], sa[1], ia[2]);
	else if (A(2)) CALL(ia[0], ia[1], sa[2]);
	else CALL(ia[0], ia[1], ia[2]);
#undef A
#undef CALL
}

static void put_opt(const char *key, const char *s)
{
	printf("%s=", key);
	if (s == NULL) printf("none");
	else vl_puthex(s, strlen(s));
}

static void op_log(char **tok, int nt)
{
	const char *mc = kv(tok, nt, "mc"), *mf = kv(tok, nt, "mf"), *ms = kv(tok, nt, "ms");
	const char *s, *sh = kv(tok, nt, "sh");
	int ell = (s = kv(tok, nt, "ell")) ? atoi(s) : 0;
	int ext = (s = kv(tok, nt, "ext")) ? atoi(s) : 1;
	int old = (s = kv(tok, nt, "old")) ? atoi(s) : 0;
	uint8_t prio = (s = kv(tok, nt, "prio")) ? (uint8_t)atoi(s) : 6;
	uint32_t line = (s = kv(tok, nt, "line")) ? (uint32_t)atol(s) : 1;
	uint32_t tags = (s = kv(tok, nt, "tags")) ? (uint32_t)strtoul(s, NULL, 10) : 0;
	char *fn = xstr(kv(tok, nt, "fn") ? kv(tok, nt, "fn") : "-");
	char *file = xstr(kv(tok, nt, "file") ? kv(tok, nt, "file") : "-");
	char *pf = xstr(kv(tok, nt, "pf") ? kv(tok, nt, "pf") : "-");
	char *ffmt = xstr(kv(tok, nt, "ffmt") ? kv(tok, nt, "ffmt") : "-");
	char *sa[3] = { NULL, NULL, NULL };
	int ia[3] = { 0, 0, 0 };
	int i, na = 0;
	char *fline = NULL;
	FILE *f;
	long sz;
	int on_c = mc && strcmp(mc, "off"), on_f = mf && strcmp(mf, "off"), on_s = ms && strcmp(ms, "off");
	if (sh == NULL || strcmp(sh, "-") == 0) sh = "";
	for (i = 0; i < nt && na < 3; i++) {
		if (strncmp(tok[i], "a=", 2) == 0) {
			if (sh[na] == 's') sa[na] = xstr(tok[i] + 2);
			else ia[na] = atoi(tok[i] + 2);
			na++;
		}
	}
	set_static_env(tok, nt);
	/* Fresh custom and file targets per call, enabled BEFORE their catch-all filter is added, so
	 * that which targets a call site reaches (C12's subject) never depends on earlier ops. */
	qb_log_ctl(QB_LOG_SYSLOG, QB_LOG_CONF_ENABLED, QB_FALSE);
	qb_log_filter_ctl(QB_LOG_SYSLOG, QB_LOG_FILTER_CLEAR_ALL, QB_LOG_FILTER_FILE, "*", LOG_TRACE);
	qb_log_ctl(QB_LOG_SYSLOG, QB_LOG_CONF_MAX_LINE_LEN, QB_LOG_MAX_LEN);
	if (truncate(fpath, 0) != 0) { /* not there yet */ }
	tLC = qb_log_custom_open(c_logger, NULL, NULL, NULL);
	tLF = qb_log_file_open(fpath);
	if (tLC < 0 || tLF < 0) { printf("bad-op\n"); goto out; }
	if (on_c && set_len(tLC, atol(mc), 0) < 0) goto out;
	if (on_f && set_len(tLF, atol(mf), ell) < 0) goto out;
	if (on_s && set_len(QB_LOG_SYSLOG, atol(ms), ell) < 0) goto out;
	qb_log_ctl(tLC, QB_LOG_CONF_EXTENDED, ext);
	qb_log_ctl(tLF, QB_LOG_CONF_EXTENDED, ext);
	qb_log_ctl(QB_LOG_SYSLOG, QB_LOG_CONF_EXTENDED, ext);
	qb_log_format_set(tLF, ffmt);
	qb_log_format_set(QB_LOG_SYSLOG, ffmt);
	qb_log_tags_stringify_fn_set(NULL);
	if (on_c) {
		qb_log_ctl(tLC, QB_LOG_CONF_ENABLED, QB_TRUE);
		qb_log_filter_ctl(tLC, QB_LOG_FILTER_ADD, QB_LOG_FILTER_FILE, "*", LOG_TRACE);
	}
	if (on_f) {
		qb_log_ctl(tLF, QB_LOG_CONF_ENABLED, QB_TRUE);
		qb_log_filter_ctl(tLF, QB_LOG_FILTER_ADD, QB_LOG_FILTER_FILE, "*", LOG_TRACE);
	}
	if (on_s) {
		qb_log_ctl(QB_LOG_SYSLOG, QB_LOG_CONF_ENABLED, QB_TRUE);
		qb_log_filter_ctl(QB_LOG_SYSLOG, QB_LOG_FILTER_ADD, QB_LOG_FILTER_FILE, "*", LOG_TRACE);
	}
	qb_util_set_log_function(old ? old_fn : NULL);
	if (old) tags |= QB_LOG_TAG_LIBQB_MSG;
	free(cap_c); cap_c = NULL;
	free(cap_o); cap_o = NULL;
	free(sys_cap); sys_cap = NULL;

	do_log(fn, file, pf, prio, line, tags, sh, sa, ia);

	if (on_f && (f = fopen(fpath, "rb"))) {
		fseek(f, 0, SEEK_END);
		sz = ftell(f);
		fseek(f, 0, SEEK_SET);
		if (sz > 0) {
			fline = malloc((size_t)sz + 1);
			sz = (long)fread(fline, 1, (size_t)sz, f);
			fline[sz] = 0;
			/* the logger appends exactly one '\n' */
			if (sz > 0 && fline[sz - 1] == '\n') fline[sz - 1] = 0;
		}
		fclose(f);
	}
	put_opt("c", cap_c);
	printf(" ");
	put_opt("f", fline);
	printf(" ");
	put_opt("s", sys_cap);
	printf(" ");
	put_opt("o", cap_o);
	printf("\n");
out:
	if (tLC >= 0) {
		qb_log_filter_ctl(tLC, QB_LOG_FILTER_CLEAR_ALL, QB_LOG_FILTER_FILE, "*", LOG_TRACE);
		qb_log_custom_close(tLC);
	}
	if (tLF >= 0) {
		qb_log_filter_ctl(tLF, QB_LOG_FILTER_CLEAR_ALL, QB_LOG_FILTER_FILE, "*", LOG_TRACE);
		qb_log_file_close(tLF);
	}
	tLC = tLF = -1;
	free(fline);
	free(fn); free(file); free(pf); free(ffmt);
	for (i = 0; i < 3; i++) free(sa[i]);
}

int main(int argc, char **argv)
{
	char *tok[VL_MAXTOK];
	int nt;
	const char *dir = argc > 1 ? argv[1] : (getenv("VERIF_TMP") ? getenv("VERIF_TMP") : ".");
	VL_INIT();
	setenv("TZ", "UTC", 1);
	tzset();
	snprintf(fpath, sizeof fpath, "%s/fmt_drv-%ld.log", dir, (long)getpid());

	qb_log_init("verif", LOG_USER, LOG_EMERG);
	qb_log_ctl(QB_LOG_SYSLOG, QB_LOG_CONF_ENABLED, QB_FALSE);
	qb_log_filter_ctl(QB_LOG_SYSLOG, QB_LOG_FILTER_CLEAR_ALL, QB_LOG_FILTER_FILE, "*", LOG_TRACE);
	qb_log_filter_ctl(QB_LOG_SYSLOG, QB_LOG_FILTER_ADD, QB_LOG_FILTER_FILE, "*", LOG_TRACE);
	/* target used by the ops that call the formatting functions directly; never enabled */
	tC = qb_log_custom_open(c_logger, NULL, NULL, NULL);
	if (tC < 0) {
		fprintf(stderr, "harness: cannot open target (%d)\n", tC);
		return 3;
	}

	while ((nt = vl_read(tok)) >= 0) {
		if (nt == 0) continue;
		if (strcmp(tok[0], "case") == 0) {
			printf("case %s\n", nt > 1 ? tok[1] : "");
			/* defaults: every op line carries its whole configuration */
			qb_log_ctl(tC, QB_LOG_CONF_MAX_LINE_LEN, QB_LOG_MAX_LEN);
		} else if (strcmp(tok[0], "fmt") == 0 && nt >= 4) {
			op_fmt(tok, nt);
		} else if (strcmp(tok[0], "static") == 0 && nt >= 4) {
			op_static(tok, nt, 0);
		} else if (strcmp(tok[0], "fset") == 0 && nt >= 3) {
			op_static(tok, nt, 1);
		} else if (strcmp(tok[0], "cut") == 0 && nt >= 6) {
			op_cut(tok, nt);
		} else if (strcmp(tok[0], "log") == 0) {
			op_log(tok, nt);
		} else {
			printf("bad-op\n");
		}
	}
	unlink(fpath);
	return 0;
}
