/* C15 harness: drives the REAL qb_log_blackbox_print_from_file / qb_log_blackbox_write_to_file
 * (lib/log_blackbox.c, lib/ringbuffer.c, lib/log_format.c from the ASan build of /repo/lib).
 *
 * Ops (one per line, DESIGN.md appendix A, driver `dump`):
 *   print FILEHEX            the bytes become a file (memfd, opened through /proc/self/fd/N);
 *                            qb_log_blackbox_print_from_file is called on it
 *   mk SIZE                  (re)creates the blackbox target with QB_LOG_CONF_SIZE = SIZE   -> `ok W`
 *   r PRIO LINE TAGS SEC NSEC FUNCHEX SHAPE FMTHEX A1 A2 [A3 A4]   (shapes: see log_shape)
 *                            logs one record through the real logger (qb_log_real_) with a
 *                            hand-made call site routed to the blackbox only and the clock
 *                            scripted to SEC.NSEC                  -> `logged ... REFHEX`
 *                            (REFHEX = what snprintf makes of the same format + arguments)
 *   dump                     qb_log_blackbox_write_to_file, then prints that file
 *                            -> `live K rp wp`, `wrote N`, `file HEX`, then the print lines
 *   maxline N                (C11) QB_LOG_CONF_MAX_LINE_LEN = N on the enabled blackbox target -> `ok` | `E…`
 *                            (reset to QB_LOG_MAX_LEN at every `case`)
 *   resize SIZE              (C11) QB_LOG_CONF_SIZE on the ENABLED target (_blackbox_reload)   -> `ok W` | `E…`
 * Print lines:  `dec TEXTHEX RET` per call of the message decoder (observed with
 *   -Wl,--wrap=qb_vsnprintf_deserialize), `o HEX` per stdout line after the ring header block
 *   (`o~ HEX` = last line without newline), `rc N`, `residue N`.
 *
 * Interposition (all in this executable; libqb is linked statically so its calls bind here):
 *   - open/unlink/unlinkat: the fixed shared-memory name "qb-create_from_file-{header,data}" is
 *     renamed per process (…-<pid>-…) so that harness processes running in parallel (and other
 *     people's checks) cannot collide on it; the residue check looks at the renamed files.
 *   - mmap/munmap: the PROT_NONE reservation of qb_sys_circular_mmap is enlarged by one
 *     PROT_NONE guard page on either side: any access beyond the doubled mapping faults
 *     (ASan does not see over-reads of mmap'd memory).
 *   - localtime/strftime: the date text is opaque to the property; strftime writes the raw
 *     seconds instead, localtime fails (NULL) outside +-2^55 s, so records print as
 *     `SEC.MMM` resp. `SEC` and seconds/milliseconds are compared as integers.
 *   - clock_gettime (only while an `r` op runs): scripted record time stamps.
 */
#include "os_base.h"
#include <stdarg.h>
#include <sys/syscall.h>
#include <sys/mman.h>
#include <qb/qbdefs.h>
#include <qb/qbrb.h>
#include <qb/qblog.h>
#include "log_int.h"
#include "ringbuffer_int.h"
#include "lineio.h"

/* ------------------------------------------------------------------ interposition */
#define CFF_ABS "/dev/shm/qb-create_from_file-"
#define CFF_REL "qb-create_from_file-"
static char cff_hdr[PATH_MAX], cff_data[PATH_MAX];

static const char *cff_map(const char *p, char *buf)
{
	if (strncmp(p, CFF_ABS, strlen(CFF_ABS)) == 0) {
		snprintf(buf, PATH_MAX, "/dev/shm/qb-vc15-%d-cff-%s", (int)getpid(), p + strlen(CFF_ABS));
		return buf;
	}
	if (strncmp(p, CFF_REL, strlen(CFF_REL)) == 0) {
		snprintf(buf, PATH_MAX, "qb-vc15-%d-cff-%s", (int)getpid(), p + strlen(CFF_REL));
		return buf;
	}
	return p;
}

int open(const char *path, int flags, ...)
{
	char buf[PATH_MAX];
	mode_t mode = 0;
	if (flags & (O_CREAT | O_TMPFILE)) {
		va_list ap;
		va_start(ap, flags);
		mode = va_arg(ap, mode_t);
		va_end(ap);
	}
	return (int)syscall(SYS_openat, AT_FDCWD, cff_map(path, buf), flags, mode);
}
int open64(const char *path, int flags, ...)
{
	char buf[PATH_MAX];
	mode_t mode = 0;
	if (flags & (O_CREAT | O_TMPFILE)) {
		va_list ap;
		va_start(ap, flags);
		mode = va_arg(ap, mode_t);
		va_end(ap);
	}
	return (int)syscall(SYS_openat, AT_FDCWD, cff_map(path, buf), flags, mode);
}
int unlink(const char *path)
{
	char buf[PATH_MAX];
	return (int)syscall(SYS_unlinkat, AT_FDCWD, cff_map(path, buf), 0);
}
int unlinkat(int dirfd, const char *path, int flags)
{
	char buf[PATH_MAX];
	return (int)syscall(SYS_unlinkat, dirfd, cff_map(path, buf), flags);
}

#define GUARD_MAX 8
static struct { char *addr; size_t len; } guards[GUARD_MAX];
static long vpage = 4096;
static int guard_on = 0;

void *mmap(void *addr, size_t len, int prot, int flags, int fd, off_t off)
{
	if (guard_on && addr == NULL && prot == PROT_NONE && fd == -1 && (flags & MAP_ANONYMOUS)) {
		int i;
		char *p = (char *)syscall(SYS_mmap, NULL, len + 2 * vpage, PROT_NONE, flags, -1, 0);
		if (p == MAP_FAILED) return MAP_FAILED;
		for (i = 0; i < GUARD_MAX; i++) {
			if (guards[i].addr == NULL) {
				guards[i].addr = p + vpage;
				guards[i].len = len;
				break;
			}
		}
		return p + vpage;
	}
	return (void *)syscall(SYS_mmap, addr, len, prot, flags, fd, off);
}
void *mmap64(void *addr, size_t len, int prot, int flags, int fd, off_t off)
{
	return mmap(addr, len, prot, flags, fd, off);
}
int munmap(void *addr, size_t len)
{
	int i;
	for (i = 0; i < GUARD_MAX; i++) {
		if (guards[i].addr && guards[i].addr == (char *)addr && guards[i].len == len) {
			guards[i].addr = NULL;
			return (int)syscall(SYS_munmap, (char *)addr - vpage, len + 2 * vpage);
		}
	}
	return (int)syscall(SYS_munmap, addr, len);
}

static time_t last_localtime;
static struct tm dummy_tm;
#define LT_LIMIT (1LL << 55)
struct tm *localtime(const time_t *t)
{
	last_localtime = *t;
	if ((long long)*t >= LT_LIMIT || (long long)*t < -LT_LIMIT) {
		errno = EOVERFLOW;
		return NULL;
	}
	return &dummy_tm;
}
size_t strftime(char *s, size_t max, const char *fmt, const struct tm *tm)
{
	int n = snprintf(s, max, "%ld", (long)last_localtime);
	(void)fmt; (void)tm;
	return (n < 0 || (size_t)n >= max) ? 0 : (size_t)n;
}

static int clock_scripted = 0;
static struct timespec clock_value;
int clock_gettime(clockid_t clk, struct timespec *ts)
{
	if (clock_scripted && (clk == CLOCK_REALTIME || clk == CLOCK_REALTIME_COARSE)) {
		*ts = clock_value;
		return 0;
	}
	return (int)syscall(SYS_clock_gettime, clk, ts);
}

/* ------------------------------------------------------------------ decoder seam */
size_t __real_qb_vsnprintf_deserialize(char *string, size_t str_len, const char *buf);
#define DEC_MAX 4096
static struct { char *text; size_t len; size_t ret; } decs[DEC_MAX];
static int ndec = 0;

size_t __wrap_qb_vsnprintf_deserialize(char *string, size_t str_len, const char *buf)
{
	size_t r = __real_qb_vsnprintf_deserialize(string, str_len, buf);
	if (ndec < DEC_MAX) {
		size_t n = strnlen(string, str_len);
		decs[ndec].text = malloc(n + 1);
		memcpy(decs[ndec].text, string, n);
		decs[ndec].len = n;
		decs[ndec].ret = r;
		ndec++;
	}
	return r;
}

/* ------------------------------------------------------------------ print */
static void out_hex_line(const char *tag, const char *p, size_t n)
{
	fputs(tag, stdout);
	fputc(' ', stdout);
	vl_puthex(p, n);
	fputc('\n', stdout);
}

static int residue_check(void)
{
	int n = 0;
	if (access(cff_hdr, F_OK) == 0) { n++; syscall(SYS_unlinkat, AT_FDCWD, cff_hdr, 0); }
	if (access(cff_data, F_OK) == 0) { n++; syscall(SYS_unlinkat, AT_FDCWD, cff_data, 0); }
	return n;
}

/* runs the real printer on the file behind `path`, stdout captured */
static void do_print(const char *path)
{
	int cap = (int)syscall(SYS_memfd_create, "vc15-out", 0);
	int saved, rc, i;
	off_t sz;
	char *buf, *p, *end;

	ndec = 0;
	fflush(stdout);
	saved = dup(1);
	dup2(cap, 1);
	errno = 0;
	guard_on = 1;
	rc = qb_log_blackbox_print_from_file(path);
	guard_on = 0;
	fflush(stdout);
	dup2(saved, 1);
	close(saved);

	sz = lseek(cap, 0, SEEK_END);
	buf = malloc(sz + 1);
	lseek(cap, 0, SEEK_SET);
	if (sz > 0 && read(cap, buf, sz) != sz) { printf("harness-error capture\n"); }
	close(cap);
	p = buf;
	end = buf + sz;
	/* qb_rb_create_from_file prints the ring header block (print_header, 7 lines) first */
	if (sz >= 12 && memcmp(p, "Ringbuffer: ", 12) == 0) {
		int k = 0;
		while (p < end && k < 7) { if (*p == '\n') k++; p++; }
	}
	for (i = 0; i < ndec; i++) {
		fputs("dec ", stdout);
		vl_puthex(decs[i].text, decs[i].len);
		printf(" %zu\n", decs[i].ret);
		free(decs[i].text);
	}
	while (p < end) {
		char *nl = memchr(p, '\n', end - p);
		if (nl) { out_hex_line("o", p, nl - p); p = nl + 1; }
		else { out_hex_line("o~", p, end - p); p = end; }
	}
	free(buf);
	printf("rc %d\n", rc);
	printf("residue %d\n", residue_check());
}

static int make_file(const unsigned char *b, size_t len, char *path)
{
	int fd = (int)syscall(SYS_memfd_create, "vc15-file", 0);
	if (fd < 0) return -1;
	if (len && write(fd, b, len) != (ssize_t)len) { close(fd); return -1; }
	snprintf(path, 64, "/proc/self/fd/%d", fd);
	return fd;
}

/* ------------------------------------------------------------------ mk */
static int log_inited = 0, bb_on = 0;

static void bb_off(void)
{
	if (bb_on) {
		qb_log_ctl(QB_LOG_BLACKBOX, QB_LOG_CONF_ENABLED, QB_FALSE);
		bb_on = 0;
	}
}

static void do_mk(long size)
{
	int32_t rc;
	struct qb_log_target *t;
	if (!log_inited) {
		qb_log_init("vc15", LOG_USER, LOG_TRACE);
		qb_log_ctl(QB_LOG_SYSLOG, QB_LOG_CONF_ENABLED, QB_FALSE);
		log_inited = 1;
	}
	bb_off();
	rc = qb_log_ctl(QB_LOG_BLACKBOX, QB_LOG_CONF_SIZE, size);
	if (rc == 0) rc = qb_log_ctl(QB_LOG_BLACKBOX, QB_LOG_CONF_ENABLED, QB_TRUE);
	if (rc != 0) { printf("%s\n", vl_errname(rc)); return; }
	bb_on = 1;
	t = qb_log_target_get(QB_LOG_BLACKBOX);
	printf("ok %u\n", ((qb_ringbuffer_t *)t->instance)->shared_hdr->word_size);
}

static void log_shape(struct qb_log_callsite *cs, char *ref, size_t reflen, int shape, char **a)
{
	long long v1 = a[0] ? strtoll(a[0], NULL, 0) : 0, v2 = a[1] ? strtoll(a[1], NULL, 0) : 0;
	long long v3 = a[2] ? strtoll(a[2], NULL, 0) : 0;
	size_t l1 = 0, l2 = 0;
	unsigned char *s1 = NULL, *s2 = NULL;
	switch (shape) {
	case 0: qb_log_real_(cs); snprintf(ref, reflen, cs->format); break;
	case 1: qb_log_real_(cs, (int)v1); snprintf(ref, reflen, cs->format, (int)v1); break;
	case 2: s1 = vl_unhex(a[0], &l1); s1[l1] = 0;
		qb_log_real_(cs, (char *)s1); snprintf(ref, reflen, cs->format, (char *)s1); break;
	case 3: s2 = vl_unhex(a[1], &l2); s2[l2] = 0;
		qb_log_real_(cs, (int)v1, (char *)s2); snprintf(ref, reflen, cs->format, (int)v1, (char *)s2); break;
	case 4: qb_log_real_(cs, v1); snprintf(ref, reflen, cs->format, v1); break;
	case 5: s1 = vl_unhex(a[0], &l1); s1[l1] = 0;
		qb_log_real_(cs, (char *)s1, (int)v2); snprintf(ref, reflen, cs->format, (char *)s1, (int)v2); break;
	case 6: qb_log_real_(cs, (int)v1, (int)v2); snprintf(ref, reflen, cs->format, (int)v1, (int)v2); break;
	case 7: qb_log_real_(cs, (long)v1, (int)v2); snprintf(ref, reflen, cs->format, (long)v1, (int)v2); break;
	/* two strings: a width-padded %s followed by another conversion */
	case 8: s1 = vl_unhex(a[0], &l1); s1[l1] = 0; s2 = vl_unhex(a[1], &l2); s2[l2] = 0;
		qb_log_real_(cs, (char *)s1, (char *)s2); snprintf(ref, reflen, cs->format, (char *)s1, (char *)s2); break;
	/* width or precision taken from the arguments (`%*s`, `%.*s`), then a string, then an int */
	case 9: s2 = vl_unhex(a[1], &l2); s2[l2] = 0;
		qb_log_real_(cs, (int)v1, (char *)s2, (int)v3); snprintf(ref, reflen, cs->format, (int)v1, (char *)s2, (int)v3); break;
	/* string, int, string, int: a table row */
	case 10: s1 = vl_unhex(a[0], &l1); s1[l1] = 0; s2 = vl_unhex(a[2], &l2); s2[l2] = 0;
		qb_log_real_(cs, (char *)s1, (int)v2, (char *)s2, (int)(a[3] ? strtoll(a[3], NULL, 0) : 0));
		snprintf(ref, reflen, cs->format, (char *)s1, (int)v2, (char *)s2, (int)(a[3] ? strtoll(a[3], NULL, 0) : 0)); break;
	default: ref[0] = 0; break;
	}
	free(s1);
	free(s2);
}

static void do_rec(char **t, int nt)
{
	struct qb_log_callsite cs;
	size_t fl, ml;
	unsigned char *fn, *fmt;
	char ref[QB_LOG_MAX_LEN * 2];
	char *args[4] = { NULL, NULL, NULL, NULL };
	int shape;
	if (!bb_on || nt < 9) { printf("bad-op\n"); return; }
	memset(&cs, 0, sizeof cs);
	fn = vl_unhex(t[6], &fl);
	fmt = vl_unhex(t[8], &ml);
	if (!fn || !fmt) { printf("bad-op\n"); return; }
	fn[fl] = 0;
	fmt[ml] = 0;
	cs.function = (char *)fn;
	cs.filename = "vc15.c";
	cs.format = (char *)fmt;
	cs.priority = (uint8_t)strtoul(t[1], NULL, 0);
	cs.lineno = (uint32_t)strtoul(t[2], NULL, 0);
	cs.tags = (uint32_t)strtoul(t[3], NULL, 0);
	cs.targets = 1u << QB_LOG_BLACKBOX;
	clock_value.tv_sec = (time_t)strtoll(t[4], NULL, 0);
	clock_value.tv_nsec = strtol(t[5], NULL, 0);
	shape = atoi(t[7]);
	if (nt > 9) args[0] = t[9];
	if (nt > 10) args[1] = t[10];
	if (nt > 11) args[2] = t[11];
	if (nt > 12) args[3] = t[12];
	clock_scripted = 1;
	log_shape(&cs, ref, sizeof ref, shape, args);
	clock_scripted = 0;
	printf("logged %u %lld %ld ", cs.priority, (long long)clock_value.tv_sec, clock_value.tv_nsec);
	vl_puthex(fn, fl);
	printf(" %u %u ", cs.lineno, cs.tags);
	vl_puthex(ref, strlen(ref));
	printf("\n");
	free(fn);
	free(fmt);
}

static void do_dump(void)
{
	char path[64];
	struct qb_log_target *t;
	qb_ringbuffer_t *rb;
	int fd, cap, saved;
	ssize_t w;
	off_t sz;
	unsigned char *b;
	uint32_t p, k = 0;
	if (!bb_on) { printf("bad-op\n"); return; }
	t = qb_log_target_get(QB_LOG_BLACKBOX);
	rb = t->instance;
	if (!rb) { printf("no-instance\n"); return; }
	/* number of live chunks, by walking the chunk headers from read_pt to write_pt */
	p = rb->shared_hdr->read_pt;
	while (p != rb->shared_hdr->write_pt && k <= rb->shared_hdr->word_size) {
		uint32_t sz32 = rb->shared_data[p];
		p = (p + 2 + sz32 / 4 + (sz32 % 4 ? 1 : 0));
		if (p > rb->shared_hdr->word_size - 1) p %= rb->shared_hdr->word_size;
		k++;
	}
	printf("live %u %u %u\n", k, rb->shared_hdr->read_pt, rb->shared_hdr->write_pt);
	fd = make_file(NULL, 0, path);
	/* qb_rb_write_to_file prints the ring header block to stdout: swallow it */
	cap = (int)syscall(SYS_memfd_create, "vc15-out2", 0);
	fflush(stdout);
	saved = dup(1);
	dup2(cap, 1);
	w = qb_log_blackbox_write_to_file(path);
	fflush(stdout);
	dup2(saved, 1);
	close(saved);
	close(cap);
	printf("wrote %zd\n", w);
	sz = lseek(fd, 0, SEEK_END);
	b = malloc(sz + 1);
	lseek(fd, 0, SEEK_SET);
	if (sz > 0 && read(fd, b, sz) != sz) printf("harness-error readback\n");
	fputs("file ", stdout);
	vl_puthex(b, sz);
	fputc('\n', stdout);
	free(b);
	bb_off();
	do_print(path);
	close(fd);
}

int main(void)
{
	char *t[VL_MAXTOK];
	int nt;
	VL_INIT();
	vpage = sysconf(_SC_PAGESIZE);
	snprintf(cff_hdr, sizeof cff_hdr, "/dev/shm/qb-vc15-%d-cff-header", (int)getpid());
	snprintf(cff_data, sizeof cff_data, "/dev/shm/qb-vc15-%d-cff-data", (int)getpid());
	residue_check();	/* files of a crashed earlier process that had the same pid */
	while ((nt = vl_read(t)) >= 0) {
		if (strcmp(t[0], "case") == 0) {
			bb_off();
			if (log_inited) qb_log_ctl(QB_LOG_BLACKBOX, QB_LOG_CONF_MAX_LINE_LEN, QB_LOG_MAX_LEN);
			printf("case %s\n", nt > 1 ? t[1] : "");
		} else if (strcmp(t[0], "print") == 0 && nt == 2) {
			size_t len;
			char path[64];
			unsigned char *b = vl_unhex(t[1], &len);
			int fd;
			if (!b) { printf("bad-op\n"); continue; }
			fd = make_file(b, len, path);
			free(b);
			if (fd < 0) { printf("harness-error memfd\n"); continue; }
			do_print(path);
			close(fd);
		} else if (strcmp(t[0], "want") == 0) {
			/* a record the property says must be printed; only the python oracle reads it */
			printf("ok\n");
		} else if (strcmp(t[0], "mk") == 0 && nt == 2) {
			do_mk(strtol(t[1], NULL, 0));
		} else if (strcmp(t[0], "maxline") == 0 && nt == 2) {
			int32_t rc;
			if (!bb_on) { printf("bad-op\n"); continue; }
			rc = qb_log_ctl(QB_LOG_BLACKBOX, QB_LOG_CONF_MAX_LINE_LEN, (int32_t)strtol(t[1], NULL, 0));
			if (rc != 0) printf("%s\n", vl_errname(rc)); else printf("ok\n");
		} else if (strcmp(t[0], "resize") == 0 && nt == 2) {
			int32_t rc;
			struct qb_log_target *bt;
			if (!bb_on) { printf("bad-op\n"); continue; }
			rc = qb_log_ctl(QB_LOG_BLACKBOX, QB_LOG_CONF_SIZE, (int32_t)strtol(t[1], NULL, 0));
			bt = qb_log_target_get(QB_LOG_BLACKBOX);
			if (rc != 0) printf("%s\n", vl_errname(rc));
			else if (!bt->instance) printf("no-instance\n");
			else printf("ok %u\n", ((qb_ringbuffer_t *)bt->instance)->shared_hdr->word_size);
		} else if (strcmp(t[0], "r") == 0) {
			do_rec(t, nt);
		} else if (strcmp(t[0], "dump") == 0) {
			do_dump();
		} else {
			printf("bad-op\n");
		}
	}
	bb_off();
	if (log_inited) qb_log_fini();
	residue_check();
	return 0;
}
