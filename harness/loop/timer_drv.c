/* Loop-level timer harness (C09): the REAL qb_loop (lib/loop.c, loop_timerlist.c, loop_job.c,
 * loop_poll*.c, util.c linked from the ASan build of /repo/lib) under a virtual clock.
 *
 * clock_gettime/clock_getres (vclock.h) and epoll_wait are defined in this executable, which
 * overrides libc for the statically linked libqb objects.  The main loop runs in the main
 * thread; every call it makes to epoll_wait(…, timeout) ends up here, is logged with its
 * timeout, and the op lines that follow are executed from inside that call (the loop is
 * "blocked in poll" meanwhile) until an `iterate` op lets the call return: the virtual clock
 * advances by the sleep, no descriptor is ever ready.  Timer callbacks log their id and the
 * virtual time.  Counterpart: lean/QbVerif/Driver/Timer.lean (`qb_timer`). */
#include "os_base.h"
#include <sys/epoll.h>
#include <qb/qbdefs.h>
#include <qb/qbloop.h>
#include "lineio.h"
#include "vclock.h"

#define MAXID (1 << 16)

static qb_loop_t *lp = NULL;
static qb_loop_timer_handle th[MAXID];
static unsigned char used[MAXID];
static int in_run = 0;       /* inside qb_loop_run */
static int quiet = 0;        /* shutting the loop down: callbacks do not log */
static int at_eof = 0;
static char saved_case[64];  /* `case N` seen while inside epoll_wait */
static int have_saved = 0;
static char *evbuf = NULL;
static size_t evlen = 0, evcap = 0;

static void ev_add(const char *s)
{
	size_t n = strlen(s);
	if (evlen + n + 1 > evcap) {
		evcap = (evlen + n + 1) * 2;
		evbuf = realloc(evbuf, evcap);
	}
	memcpy(evbuf + evlen, s, n + 1);
	evlen += n;
}

static void timer_cb(void *data)
{
	char b[96];
	if (quiet) return;
	snprintf(b, sizeof b, " t:%llu@%llu", (unsigned long long)(uintptr_t)data, (unsigned long long)vclock_now);
	ev_add(b);
}

static void job_cb(void *data)
{
	char b[64];
	if (quiet) return;
	snprintf(b, sizeof b, " j:%llu", (unsigned long long)(uintptr_t)data);
	ev_add(b);
}

static void loop_reset(uint64_t hz, uint64_t now)
{
	if (lp) qb_loop_destroy(lp);
	memset(th, 0, sizeof th);
	memset(used, 0, sizeof used);
	vclock_set_hz(hz);
	vclock_now = now;
	evlen = 0;
	if (evbuf) evbuf[0] = 0;
	quiet = 0;
	lp = qb_loop_create();
}

enum { OP_DONE, OP_ITERATE };
static int iter_has_wake;
static uint64_t iter_wake;

/* executes one op line (not `case`); prints its result unless it is `iterate` */
static int do_op(char **t, int nt)
{
	if (strcmp(t[0], "init") == 0 && nt >= 3) {
		if (in_run) { printf("bad-op\n"); return OP_DONE; }
		loop_reset(strtoull(t[1], NULL, 10), strtoull(t[2], NULL, 10));
		printf("ok\n");
	} else if (strcmp(t[0], "timer_add") == 0 && nt == 4) {
		unsigned long p = strtoul(t[1], NULL, 10);
		uint64_t ns = strtoull(t[2], NULL, 10);
		unsigned long long id = strtoull(t[3], NULL, 10);
		int32_t rc;
		if (p > 2 || id >= MAXID || used[id]) { printf("bad-op\n"); return OP_DONE; }
		used[id] = 1;
		rc = qb_loop_timer_add(lp, (enum qb_loop_priority)p, ns, (void *)(uintptr_t)id, timer_cb, &th[id]);
		if (rc < 0) printf("%s\n", vl_errname(rc)); else printf("%d\n", rc);
	} else if (strcmp(t[0], "timer_del") == 0 && nt == 2) {
		unsigned long long id = strtoull(t[1], NULL, 10);
		int32_t rc;
		if (id >= MAXID) { printf("bad-op\n"); return OP_DONE; }
		rc = qb_loop_timer_del(lp, th[id]);
		if (rc < 0) printf("%s\n", vl_errname(rc)); else printf("%d\n", rc);
	} else if (strcmp(t[0], "job_add") == 0 && nt == 3) {
		unsigned long p = strtoul(t[1], NULL, 10);
		unsigned long long id = strtoull(t[2], NULL, 10);
		int32_t rc;
		if (p > 2) { printf("bad-op\n"); return OP_DONE; }
		rc = qb_loop_job_add(lp, (enum qb_loop_priority)p, (void *)(uintptr_t)id, job_cb);
		if (rc < 0) printf("%s\n", vl_errname(rc)); else printf("%d\n", rc);
	} else if (strcmp(t[0], "advance") == 0 && nt == 2) {
		vclock_now += strtoull(t[1], NULL, 10);
		printf("now %llu\n", (unsigned long long)vclock_now);
	} else if (strcmp(t[0], "remaining") == 0 && nt == 2) {
		unsigned long long id = strtoull(t[1], NULL, 10);
		if (id >= MAXID) { printf("bad-op\n"); return OP_DONE; }
		printf("%llu\n", (unsigned long long)qb_loop_timer_expire_time_remaining(lp, th[id]));
	} else if (strcmp(t[0], "running") == 0 && nt == 2) {
		unsigned long long id = strtoull(t[1], NULL, 10);
		if (id >= MAXID) { printf("bad-op\n"); return OP_DONE; }
		printf("%d\n", qb_loop_timer_is_running(lp, th[id]) ? 1 : 0);
	} else if (strcmp(t[0], "exptime") == 0 && nt == 2) {
		unsigned long long id = strtoull(t[1], NULL, 10);
		if (id >= MAXID) { printf("bad-op\n"); return OP_DONE; }
		printf("%llu\n", (unsigned long long)qb_loop_timer_expire_time_get(lp, th[id]));
	} else if (strcmp(t[0], "iterate") == 0 && nt <= 2) {
		iter_has_wake = (nt == 2);
		iter_wake = iter_has_wake ? strtoull(t[1], NULL, 10) : 0;
		return OP_ITERATE;
	} else {
		printf("bad-op\n");
	}
	return OP_DONE;
}

/* the loop's only way to block: lib/loop_poll_epoll.c:_poll_and_add_to_jobs_ */
int epoll_wait(int epfd, struct epoll_event *events, int maxevents, int timeout)
{
	char *t[VL_MAXTOK];
	int nt;
	(void)epfd; (void)events; (void)maxevents;
	if (!in_run || quiet) return 0;
	/* result line of the `iterate` op that brought the loop here */
	printf("wait=%d now=%llu cbs:%s\n", timeout, (unsigned long long)vclock_now, evlen ? evbuf : "");
	evlen = 0;
	if (evbuf) evbuf[0] = 0;
	for (;;) {
		nt = vl_read(t);
		if (nt < 0 || strcmp(t[0], "case") == 0) {
			if (nt < 0) at_eof = 1;
			else {
				snprintf(saved_case, sizeof saved_case, "%s", nt > 1 ? t[1] : "");
				have_saved = 1;
			}
			quiet = 1;
			qb_loop_stop(lp);
			errno = 0;
			return 0;
		}
		if (do_op(t, nt) == OP_ITERATE) {
			uint64_t dt;
			if (!iter_has_wake) {
				dt = timeout > 0 ? (uint64_t)timeout * 1000000ULL : 0;
			} else if (timeout < 0) {
				dt = iter_wake;
			} else {
				uint64_t full = (uint64_t)timeout * 1000000ULL;
				dt = iter_wake < full ? iter_wake : full;
			}
			vclock_now += dt;
			errno = 0;
			return 0;
		}
	}
}

int main(void)
{
	char *t[VL_MAXTOK];
	int nt;
	VL_INIT();
	setvbuf(stdout, NULL, _IOLBF, 1 << 16);
	loop_reset(1000000000ULL, 1000000000ULL);
	for (;;) {
		if (have_saved) {
			have_saved = 0;
			loop_reset(1000000000ULL, 1000000000ULL);
			printf("case %s\n", saved_case);
			continue;
		}
		if (at_eof) break;
		nt = vl_read(t);
		if (nt < 0) break;
		if (strcmp(t[0], "case") == 0) {
			loop_reset(1000000000ULL, 1000000000ULL);
			printf("case %s\n", nt > 1 ? t[1] : "");
			continue;
		}
		if (do_op(t, nt) == OP_ITERATE) {
			/* enter qb_loop_run; it returns only after a `case` line or EOF */
			in_run = 1;
			qb_loop_run(lp);
			in_run = 0;
		}
	}
	fflush(stdout);
	return 0;
}
