/* Virtual CLOCK_MONOTONIC for the C09 harnesses.
 *
 * Defining clock_gettime / clock_getres in the harness executable overrides libc for the
 * statically linked libqb objects, so lib/util.c's qb_util_nano_current_get() and
 * qb_util_nano_monotonic_hz() (the real functions) read this clock.  Other clock ids are
 * passed to the kernel unchanged. */
#ifndef VERIF_VCLOCK_H
#define VERIF_VCLOCK_H
#include <time.h>
#include <stdint.h>
#include <unistd.h>
#include <sys/syscall.h>

static uint64_t vclock_now = 1000000000ULL;   /* ns */
static uint64_t vclock_res = 1;               /* ns, 1e9 / hz */
static unsigned long vclock_reads = 0;

int clock_gettime(clockid_t id, struct timespec *ts)
{
	if (id == CLOCK_MONOTONIC) {
		vclock_reads++;
		ts->tv_sec = (time_t)(vclock_now / 1000000000ULL);
		ts->tv_nsec = (long)(vclock_now % 1000000000ULL);
		return 0;
	}
	return (int)syscall(SYS_clock_gettime, id, ts);
}

int clock_getres(clockid_t id, struct timespec *ts)
{
	if (id == CLOCK_MONOTONIC) {
		if (ts) {
			ts->tv_sec = (time_t)(vclock_res / 1000000000ULL);
			ts->tv_nsec = (long)(vclock_res % 1000000000ULL);
		}
		return 0;
	}
	return (int)syscall(SYS_clock_getres, id, ts);
}

static void vclock_set_hz(uint64_t hz)
{
	vclock_res = hz ? 1000000000ULL / hz : 1000000000ULL;
	if (vclock_res == 0) vclock_res = 1;
}
#endif
