/* Timer-heap harness (C09): drives the REAL include/tlist.h (header-only, included here) and
 * the real clock helpers of lib/util.c (linked, reading the virtual clock of vclock.h) with the
 * op lines of the model driver `qb_heap` (lean/QbVerif/Driver/Heap.lean) and prints the heap
 * array (id:expire_time:heap_pos in array order) after every op. */
/* lib/loop_timerlist.c is #included (not linked): it includes tlist.h, so the heap functions,
 * `timerlist_hertz`, `struct qb_timer_source` and qb_loop_timer_msec_duration_to_expire are all
 * the real ones, in one translation unit. */
#include "os_base.h"
#include "loop_timerlist.c"
#include "lineio.h"
#include "vclock.h"

#define MAXID (1 << 17)
#define FULL_LIMIT 40

static struct timerlist tl;
static int tl_live = 0;
static timer_handle handles[MAXID];
static unsigned long long *fired = NULL;
static size_t nfired = 0, capfired = 0;

static void cb(void *data)
{
	if (nfired == capfired) {
		capfired = capfired ? capfired * 2 : 64;
		fired = realloc(fired, capfired * sizeof(*fired));
	}
	fired[nfired++] = (unsigned long long)(uintptr_t)data;
}

static void tl_reset(uint64_t hz)
{
	if (tl_live) timerlist_destroy(&tl);
	memset(handles, 0, sizeof handles);
	vclock_set_hz(hz);
	timerlist_init(&tl);
	tl_live = 1;
}

static void show_heap(void)
{
	size_t i;
	int v = timerlist_debug_is_valid_heap(&tl);
	if (tl.size <= FULL_LIMIT) {
		printf("heap %zu v=%d:", tl.allocated, v);
		for (i = 0; i < tl.size; i++) {
			struct timerlist_timer *t = tl.heap_entries[i];
			printf(" %llu:%llu:%zu", (unsigned long long)(uintptr_t)t->data,
			       (unsigned long long)t->expire_time, t->heap_pos);
		}
		printf("\n");
	} else {
		uint64_t h = 14695981039346656037ULL;
		for (i = 0; i < tl.size; i++) {
			struct timerlist_timer *t = tl.heap_entries[i];
			h = (h ^ (uint64_t)(uintptr_t)t->data) * 1099511628211ULL;
			h = (h ^ t->expire_time) * 1099511628211ULL;
			h = (h ^ (uint64_t)t->heap_pos) * 1099511628211ULL;
		}
		printf("heap %zu v=%d n=%zu root=%llu:%llu d=%llu\n", tl.allocated, v, tl.size,
		       (unsigned long long)(uintptr_t)tl.heap_entries[0]->data,
		       (unsigned long long)tl.heap_entries[0]->expire_time, (unsigned long long)h);
	}
}

int main(void)
{
	char *t[VL_MAXTOK];
	int nt;
	VL_INIT();
	setvbuf(stdout, NULL, _IOLBF, 1 << 16);
	tl_reset(1000000000ULL);
	while ((nt = vl_read(t)) >= 0) {
		if (strcmp(t[0], "case") == 0) {
			tl_reset(1000000000ULL);
			vclock_now = 0;
			printf("case %s\n", nt > 1 ? t[1] : "");
			continue;
		} else if (strcmp(t[0], "hz") == 0 && nt == 2) {
			tl_reset(strtoull(t[1], NULL, 10));
			printf("ok\n");
		} else if (strcmp(t[0], "variant") == 0 && nt == 2) {
			printf("ok\n");   /* the implementation is what it is */
		} else if (strcmp(t[0], "now") == 0 && nt == 2) {
			vclock_now = strtoull(t[1], NULL, 10);
			printf("ok\n");
		} else if ((strcmp(t[0], "add") == 0 || strcmp(t[0], "addd") == 0) && nt == 3) {
			unsigned long long id = strtoull(t[1], NULL, 10);
			uint64_t x = strtoull(t[2], NULL, 10);
			if (id >= MAXID || handles[id]) {
				printf("bad-op\n");
			} else if (t[0][3] == 'd') {
				int32_t rc = timerlist_add_duration(&tl, cb, (void *)(uintptr_t)id, x, &handles[id]);
				if (rc) printf("%s\n", vl_errname(rc));
				else printf("ok %llu\n", (unsigned long long)timerlist_expire_time(&tl, handles[id]));
			} else {
				/* what timerlist_add_duration does, with the expiry given directly */
				struct timerlist_timer *tm = malloc(sizeof *tm);
				int32_t rc;
				tm->expire_time = x;
				tm->is_absolute_timer = QB_FALSE;
				tm->data = (void *)(uintptr_t)id;
				tm->timer_fn = cb;
				tm->handle_addr = &handles[id];
				rc = timerlist_add(&tl, tm);
				if (rc) { free(tm); printf("%s\n", vl_errname(rc)); }
				else { handles[id] = tm; printf("ok\n"); }
			}
		} else if (strcmp(t[0], "del") == 0 && nt == 2) {
			unsigned long long id = strtoull(t[1], NULL, 10);
			if (id >= MAXID || !handles[id]) printf("bad-op\n");
			else {
				int32_t rc = timerlist_del(&tl, handles[id]);
				if (rc) printf("%s\n", vl_errname(rc)); else printf("ok\n");
			}
		} else if (strcmp(t[0], "expire") == 0 && nt == 2) {
			size_t i;
			vclock_now = strtoull(t[1], NULL, 10);
			nfired = 0;
			timerlist_expire(&tl);
			printf("fired:");
			for (i = 0; i < nfired; i++) printf(" %llu", fired[i]);
			printf("\n");
		} else if (strcmp(t[0], "msec") == 0 && nt == 2) {
			struct qb_timer_source src;
			uint64_t m;
			int32_t ms;
			vclock_now = strtoull(t[1], NULL, 10);
			m = timerlist_msec_duration_to_expire(&tl);
			/* same timerlist through the real qb_loop_timer_msec_duration_to_expire */
			memset(&src, 0, sizeof src);
			src.timerlist = tl;
			ms = qb_loop_timer_msec_duration_to_expire((struct qb_loop_source *)&src);
			printf("%llu %d\n", (unsigned long long)m, ms);
		} else {
			printf("bad-op\n");
		}
		show_heap();
	}
	fflush(stdout);
	return 0;
}
