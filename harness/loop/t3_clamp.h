/*
 * Pre-header for the machine translation (tools/c2lean.py, spec tools/extract.d/TimerC.json) of
 * qb_loop_timer_msec_duration_to_expire() in lib/loop_timerlist.c.
 *
 * c2lean.py translates straight-line integer code; everything a function reads must be rooted at
 * one of its parameters.  The function calls timerlist_msec_duration_to_expire(&my_src->timerlist)
 * once; this header turns the *result of that call* into an explicit input of the translation
 * (`timer_source_left`, a uint64_t): all headers of loop_timerlist.c are included first (their
 * include guards make the #include lines of loop_timerlist.c no-ops, so tlist.h itself is parsed
 * unchanged), then the call is redirected to a member read rooted at the parameter.
 * Nothing else of the function is touched: the `left != -1 && left > ...` test, the clamp value and
 * the uint64_t -> int32_t conversion of `return left;` are translated from the current source.
 */
#include "os_base.h"
#include <pthread.h>
#include <qb/qbdefs.h>
#include <qb/qblist.h>
#include <qb/qbarray.h>
#include <qb/qbloop.h>
#include "loop_int.h"
#include "util_int.h"
#include "tlist.h"

struct vt_t3_left {
	uint64_t left;
};
#define timerlist_msec_duration_to_expire(tl) (((struct vt_t3_left *)timer_source)->left)
