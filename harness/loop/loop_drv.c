/* Event-loop harness (C08, C10; also usable for C09's loop-level checks).
 *
 * Links the REAL lib/loop.c, loop_job.c, loop_timerlist.c, loop_poll.c, loop_poll_epoll.c and
 * drives them with the op lines of DESIGN.md appendix A (driver `loop`).  The environment of the
 * loop is replaced by definitions in THIS executable (they override libc for the statically linked
 * library objects):
 *   epoll_create1/epoll_ctl/epoll_wait  an abstract epoll set (registration order, kernel error
 *                                       codes EEXIST/ENOENT/EBADF) fed from the script; ONE
 *                                       epoll_wait call == ONE loop iteration; epoll_wait is also the
 *                                       script interpreter while the loop is parked in it
 *   clock_gettime/clock_getres          virtual clock, moved only by `advance NS`
 *   random                              1, 2, 3, ... (or whatever `nonce V` sets) -> deterministic handles
 *   usleep                              logged, does not sleep
 * User descriptors are virtual numbers >= 100 (`open FD` / `close FD`); the library never touches
 * them except through epoll_ctl.  The signal pipe is the library's real pipe; real signals are
 * raised with raise() and reach the library's own handler.
 *
 * Output: one result line per op; inside a callback every line is prefixed with "> ".
 * Per `iterate`:  `wait T`, event lines (`usleep`, `cb job ID`, `cb timer ID`, `cb fd ID FD REV`,
 * `cb sig ID SIG`, nested results), then `done` (iteration over, loop parked again) or
 * `run-returned` (qb_loop_run returned).
 */
#include "os_base.h"
#include <signal.h>
#include <poll.h>
#include <fcntl.h>
#include <sys/epoll.h>
#include <qb/qbdefs.h>
#include <qb/qblist.h>
#include <qb/qbloop.h>
#include "loop_int.h"
#include "lineio.h"

#define VFD_BASE 100
#define VFD_N 64
#define MAXID 4096
#define MAXH 256
#define MAXOPS 32
#define TSEQ_MAX 4096

struct ereg { int fd; uint32_t events; uint64_t data; };
struct script { int defined; int nops; char *ops[MAXOPS]; int ret; long times; long runs; };

static qb_loop_t *L;
static int in_run, first_wait, quiet, creating, depth;
static uint64_t vnow;
static long nonce;
static unsigned tseq;
static int vfd_open[VFD_N];
static struct ereg eset[512];
static int neset;
static int pipe_rd = -1;
static struct script scripts[MAXID];
static qb_loop_timer_handle th[MAXH];
static qb_loop_signal_handle sh[MAXH];
static int sh_live[MAXH];
static int ready_fd[64], ready_ev[64], nready;
static char pending_case[64];
static const int sigs_ok[] = { SIGHUP, SIGUSR1, SIGUSR2, SIGWINCH, SIGCHLD, SIGURG, SIGTERM, 0 };

static int sig_allowed(int sg)
{
	int i;
	for (i = 0; sigs_ok[i]; i++) if (sigs_ok[i] == sg) return 1;
	return 0;
}

static const char *pfx(void) { return depth > 0 ? "> " : ""; }

static void put_rc(long rc)
{
	if (rc < 0) printf("%s%s\n", pfx(), vl_errname((int)rc));
	else printf("%s%ld\n", pfx(), rc);
}

/* ------------------------------------------------------------------ interposed environment */
int clock_gettime(clockid_t c, struct timespec *ts)
{
	(void)c;
	ts->tv_sec = vnow / 1000000000ULL;
	ts->tv_nsec = vnow % 1000000000ULL;
	return 0;
}

int clock_getres(clockid_t c, struct timespec *ts)
{
	(void)c;
	if (ts) { ts->tv_sec = 0; ts->tv_nsec = 1; }
	return 0;
}

long random(void)
{
	return ++nonce;
}

int usleep(useconds_t us)
{
	(void)us;
	if (in_run && !quiet) printf("%susleep\n", pfx());
	return 0;
}

int epoll_create1(int flags)
{
	(void)flags;
	return open("/dev/null", O_RDONLY | O_CLOEXEC);
}

static int fd_is_open(int fd)
{
	if (fd >= VFD_BASE && fd < VFD_BASE + VFD_N) return vfd_open[fd - VFD_BASE];
	if (fd >= VFD_BASE + VFD_N || fd < 0) return 0;
	return fcntl(fd, F_GETFD) != -1;
}

static int efind(int fd)
{
	int i;
	for (i = 0; i < neset; i++) if (eset[i].fd == fd) return i;
	return -1;
}

static void eremove(int i)
{
	memmove(&eset[i], &eset[i + 1], (neset - i - 1) * sizeof(eset[0]));
	neset--;
}

static void put_fd(int fd)
{
	if (fd == pipe_rd) printf("P"); else printf("%d", fd);
}

int epoll_ctl(int epfd, int op, int fd, struct epoll_event *ev)
{
	int rc = 0, err = 0, i;
	const char *name = op == EPOLL_CTL_ADD ? "add" : op == EPOLL_CTL_MOD ? "mod" : "del";
	(void)epfd;
	if (creating && op == EPOLL_CTL_ADD && pipe_rd < 0) pipe_rd = fd;
	i = efind(fd);
	if (!fd_is_open(fd)) { rc = -1; err = EBADF; }
	else if (op == EPOLL_CTL_ADD) {
		if (i >= 0) { rc = -1; err = EEXIST; }
		else if (neset >= 512) { rc = -1; err = ENOSPC; }
		else { eset[neset].fd = fd; eset[neset].events = ev->events; eset[neset].data = ev->data.u64; neset++; }
	} else if (op == EPOLL_CTL_MOD) {
		if (i < 0) { rc = -1; err = ENOENT; }
		else { eset[i].events = ev->events; eset[i].data = ev->data.u64; }
	} else {
		if (i < 0) { rc = -1; err = ENOENT; }
		else eremove(i);
	}
	if (!creating && !quiet) {
		printf("%sepoll %s ", pfx(), name);
		put_fd(fd);
		if (op != EPOLL_CTL_DEL && ev)
			printf(" %u %u:%u", (unsigned)ev->events, (unsigned)(ev->data.u64 >> 32), (unsigned)(ev->data.u64 & 0xffffffffu));
		printf(" %s\n", rc == 0 ? "0" : vl_errname(err));
	}
	if (rc) errno = err;
	return rc;
}

enum { R_ITER, R_CASE, R_EOF };
static int pump(void);
static int unwound_r;

int epoll_wait(int epfd, struct epoll_event *events, int maxevents, int timeout)
{
	int n = 0, i, j, k;
	(void)epfd;
	if (!in_run || quiet) return 0;
	if (!first_wait) {
		int r;
		printf("done\n");
		r = pump();
		if (r != R_ITER) {
			/* end of the script for this loop: unwind silently */
			quiet = 1;
			unwound_r = r;
			qb_loop_stop(L);
			return 0;
		}
	}
	first_wait = 0;
	printf("wait %d\n", timeout);
	/* the signal pipe is level-triggered and real */
	i = efind(pipe_rd);
	if (i >= 0 && n < maxevents) {
		struct pollfd pf;
		pf.fd = pipe_rd; pf.events = POLLIN; pf.revents = 0;
		if (poll(&pf, 1, 0) == 1 && (pf.revents & POLLIN) && (eset[i].events & EPOLLIN)) {
			events[n].events = EPOLLIN;
			events[n].data.u64 = eset[i].data;
			n++;
		}
	}
	for (j = 0; j < nready && n < maxevents; j++) {
		uint32_t rep;
		int dup = 0;
		for (k = 0; k < j; k++) if (ready_fd[k] == ready_fd[j]) dup = 1;
		if (dup || ready_fd[j] == pipe_rd) continue;
		i = efind(ready_fd[j]);
		if (i < 0) continue;
		rep = (uint32_t)ready_ev[j] & (eset[i].events | EPOLLERR | EPOLLHUP);
		if (!rep) continue;
		events[n].events = rep;
		events[n].data.u64 = eset[i].data;
		n++;
	}
	return n;
}

/* ------------------------------------------------------------------ callbacks */
static void exec_line(char *line);

static int run_script(long id)
{
	struct script *s;
	int i;
	if (id < 0 || id >= MAXID || !scripts[id].defined) return 0;
	s = &scripts[id];
	s->runs++;
	if (s->times >= 0 && s->runs > s->times) return 0;
	depth++;
	for (i = 0; i < s->nops; i++) {
		char *c = strdup(s->ops[i]);
		exec_line(c);
		free(c);
	}
	depth--;
	return s->ret;
}

static void job_cb(void *data)
{
	if (quiet) return;
	printf("cb job %ld\n", (long)(intptr_t)data);
	(void)run_script((long)(intptr_t)data);
}

static void timer_cb(void *data)
{
	if (quiet) return;
	printf("cb timer %ld\n", (long)(intptr_t)data);
	(void)run_script((long)(intptr_t)data);
}

static int32_t fd_cb(int32_t fd, int32_t revents, void *data)
{
	if (quiet) return 0;
	printf("cb fd %ld ", (long)(intptr_t)data);
	put_fd(fd);
	printf(" %d\n", revents);
	return run_script((long)(intptr_t)data);
}

static int32_t sig_cb(int32_t sig, void *data)
{
	long v = (long)(intptr_t)data;
	int rc;
	if (quiet) return 0;
	printf("cb sig %ld %d\n", v & 0xffff, sig);
	rc = run_script(v & 0xffff);
	if (rc != 0 && (v >> 16) < MAXH) sh_live[v >> 16] = 0;	/* the library deletes the registration itself */
	return rc;
}

/* ------------------------------------------------------------------ ops */
static void exec_op(char **t, int nt)
{
	const char *o = t[0];
	long a1 = nt > 1 ? strtol(t[1], NULL, 10) : 0;
	long a2 = nt > 2 ? strtol(t[2], NULL, 10) : 0;
	long a3 = nt > 3 ? strtol(t[3], NULL, 10) : 0;
	long a4 = nt > 4 ? strtol(t[4], NULL, 10) : 0;

	if (!strcmp(o, "script") && nt >= 2) {
		/* script ID [times=R] op args ; op args ; ret X */
		struct script *s;
		int i = 2, k;
		char buf[512];
		if (a1 < 0 || a1 >= MAXID) { printf("%sbad-op\n", pfx()); return; }
		s = &scripts[a1];
		for (k = 0; k < s->nops; k++) free(s->ops[k]);
		memset(s, 0, sizeof *s);
		s->defined = 1;
		s->times = -1;
		if (i < nt && !strncmp(t[i], "times=", 6)) { s->times = strtol(t[i] + 6, NULL, 10); i++; }
		buf[0] = 0;
		for (; i <= nt; i++) {
			if (i == nt || !strcmp(t[i], ";")) {
				if (buf[0]) {
					if (!strncmp(buf, "ret ", 4)) s->ret = (int)strtol(buf + 4, NULL, 10);
					else if (s->nops < MAXOPS) s->ops[s->nops++] = strdup(buf);
				}
				buf[0] = 0;
			} else {
				if (buf[0]) strncat(buf, " ", sizeof buf - strlen(buf) - 1);
				strncat(buf, t[i], sizeof buf - strlen(buf) - 1);
			}
		}
		printf("%sok\n", pfx());
	} else if (!strcmp(o, "info")) {
		printf("%sto_process %d %d %d\n", pfx(), L->level[QB_LOOP_HIGH].to_process,
		       L->level[QB_LOOP_MED].to_process, L->level[QB_LOOP_LOW].to_process);
	} else if (!strcmp(o, "job_add") && nt == 3) {
		put_rc(qb_loop_job_add(L, (enum qb_loop_priority)a1, (void *)(intptr_t)a2, job_cb));
	} else if (!strcmp(o, "job_del") && nt == 3) {
		put_rc(qb_loop_job_del(L, (enum qb_loop_priority)a1, (void *)(intptr_t)a2, job_cb));
	} else if (!strcmp(o, "timer_add") && nt == 5) {
		/* timer_add P NS H ID: duration NS + (sequence number of this call), see README in checks */
		unsigned long long ns = strtoull(t[2], NULL, 10);
		if (a3 < 0 || a3 >= MAXH || tseq + 1 >= TSEQ_MAX || a1 < 0 || a1 > QB_LOOP_HIGH) { printf("%sbad-op\n", pfx()); return; }
		tseq++;
		put_rc(qb_loop_timer_add(L, (enum qb_loop_priority)a1, ns + tseq, (void *)(intptr_t)a4, timer_cb, &th[a3]));
	} else if (!strcmp(o, "timer_del") && nt == 2) {
		if (a1 < 0 || a1 >= MAXH) { printf("%sbad-op\n", pfx()); return; }
		put_rc(qb_loop_timer_del(L, th[a1]));
	} else if (!strcmp(o, "timer_running") && nt == 2) {
		if (a1 < 0 || a1 >= MAXH) { printf("%sbad-op\n", pfx()); return; }
		put_rc(qb_loop_timer_is_running(L, th[a1]));
	} else if (!strcmp(o, "poll_add") && nt == 5) {
		if (a1 < 0 || a1 > QB_LOOP_HIGH) { printf("%sbad-op\n", pfx()); return; }	/* the library does not validate p */
		put_rc(qb_loop_poll_add(L, (enum qb_loop_priority)a1, (int32_t)a2, (int32_t)a3, (void *)(intptr_t)a4, fd_cb));
	} else if (!strcmp(o, "poll_mod") && nt == 5) {
		if (a1 < 0 || a1 > QB_LOOP_HIGH) { printf("%sbad-op\n", pfx()); return; }
		put_rc(qb_loop_poll_mod(L, (enum qb_loop_priority)a1, (int32_t)a2, (int32_t)a3, (void *)(intptr_t)a4, fd_cb));
	} else if (!strcmp(o, "poll_del") && nt == 2) {
		put_rc(qb_loop_poll_del(L, (int32_t)a1));
	} else if (!strcmp(o, "sig_add") && nt == 5) {
		/* sig_add P SIG H ID */
		int rc;
		if (a3 < 0 || a3 >= MAXH || a4 < 0 || a4 > 0xffff || !sig_allowed((int)a2)) { printf("%sbad-op\n", pfx()); return; }
		if (sh_live[a3]) { printf("%shandle-in-use\n", pfx()); return; }
		rc = qb_loop_signal_add(L, (enum qb_loop_priority)a1, (int32_t)a2, (void *)(intptr_t)((a3 << 16) | a4), sig_cb, &sh[a3]);
		if (rc == 0) sh_live[a3] = 1;
		put_rc(rc);
	} else if (!strcmp(o, "sig_mod") && nt == 5) {
		if (a3 < 0 || a3 >= MAXH || a4 < 0 || a4 > 0xffff || !sig_allowed((int)a2)) { printf("%sbad-op\n", pfx()); return; }
		if (!sh_live[a3]) { printf("%sdead-handle\n", pfx()); return; }
		put_rc(qb_loop_signal_mod(L, (enum qb_loop_priority)a1, (int32_t)a2, (void *)(intptr_t)((a3 << 16) | a4), sig_cb, sh[a3]));
	} else if (!strcmp(o, "sig_del") && nt == 2) {
		int rc;
		if (a1 < 0 || a1 >= MAXH) { printf("%sbad-op\n", pfx()); return; }
		if (!sh_live[a1]) { printf("%sdead-handle\n", pfx()); return; }	/* a dangling pointer handle is the caller's error */
		rc = qb_loop_signal_del(L, sh[a1]);
		if (rc == 0) sh_live[a1] = 0;
		put_rc(rc);
	} else if (!strcmp(o, "stop")) {
		qb_loop_stop(L);
		printf("%sok\n", pfx());
	} else if (!strcmp(o, "open") && nt == 2) {
		if (a1 < VFD_BASE || a1 >= VFD_BASE + VFD_N) { printf("%sbad-op\n", pfx()); return; }
		vfd_open[a1 - VFD_BASE] = 1;
		printf("%sok\n", pfx());
	} else if (!strcmp(o, "close") && nt == 2) {
		int i;
		if (a1 < VFD_BASE || a1 >= VFD_BASE + VFD_N) { printf("%sbad-op\n", pfx()); return; }
		vfd_open[a1 - VFD_BASE] = 0;
		i = efind((int)a1);		/* the kernel drops a closed descriptor from every epoll set */
		if (i >= 0) eremove(i);
		printf("%sok\n", pfx());
	} else if (!strcmp(o, "advance") && nt == 2) {
		vnow += strtoull(t[1], NULL, 10);
		printf("%sok\n", pfx());
	} else if (!strcmp(o, "nonce") && nt == 2) {
		if (a1 < 1) { printf("%sbad-op\n", pfx()); return; }
		nonce = a1 - 1;
		printf("%sok\n", pfx());
	} else if (!strcmp(o, "signal") && nt == 2) {
		struct sigaction sa;
		if (!sig_allowed((int)a1)) { printf("%sbad-op\n", pfx()); return; }
		sigaction((int)a1, NULL, &sa);
		if (sa.sa_handler == SIG_DFL || sa.sa_handler == SIG_IGN) printf("%sunhandled\n", pfx());
		else { raise((int)a1); printf("%sok\n", pfx()); }
	} else {
		printf("%sbad-op\n", pfx());
	}
}

static void exec_line(char *p)
{
	char *tok[VL_MAXTOK];
	int nt = 0;
	while (*p == ' ') p++;
	while (*p && nt < VL_MAXTOK) {
		tok[nt++] = p;
		while (*p && *p != ' ') p++;
		if (*p) { *p++ = 0; while (*p == ' ') p++; }
	}
	if (nt > 0) exec_op(tok, nt);
}

static int pump(void)
{
	char *t[VL_MAXTOK];
	int nt, i;
	while ((nt = vl_read(t)) >= 0) {
		if (!strcmp(t[0], "case")) {
			snprintf(pending_case, sizeof pending_case, "%s", nt > 1 ? t[1] : "");
			return R_CASE;
		}
		if (!strcmp(t[0], "iterate")) {
			nready = 0;
			for (i = 1; i < nt && nready < 64; i++) {
				char *c = strchr(t[i], ':');
				ready_fd[nready] = (int)strtol(t[i], NULL, 10);
				ready_ev[nready] = c ? (int)strtol(c + 1, NULL, 10) : POLLIN;
				nready++;
			}
			return R_ITER;
		}
		exec_op(t, nt);
	}
	return R_EOF;
}

static void reset_case(void)
{
	int i, k;
	if (L) { qb_loop_destroy(L); L = NULL; }
	for (i = 0; sigs_ok[i]; i++) signal(sigs_ok[i], SIG_DFL);
	for (i = 0; i < MAXID; i++) {
		for (k = 0; k < scripts[i].nops; k++) free(scripts[i].ops[k]);
		memset(&scripts[i], 0, sizeof scripts[i]);
	}
	memset(th, 0, sizeof th);
	memset(sh, 0, sizeof sh);
	memset(sh_live, 0, sizeof sh_live);
	memset(vfd_open, 0, sizeof vfd_open);
	neset = 0;
	nonce = 0;
	tseq = 0;
	vnow = 1000000000ULL;
	pipe_rd = -1;
	in_run = quiet = depth = 0;
	creating = 1;
	L = qb_loop_create();
	creating = 0;
	if (!L) { printf("loop-create-failed\n"); exit(3); }
}

int main(void)
{
	int r;
	VL_INIT();
	reset_case();
	for (;;) {
		r = pump();
		while (r == R_ITER) {
			in_run = 1; first_wait = 1; quiet = 0;
			qb_loop_run(L);
			in_run = 0;
			if (quiet) {		/* unwound from inside epoll_wait: the script of this loop ended */
				quiet = 0;
				r = unwound_r;
				break;
			}
			printf("run-returned\n");
			r = pump();
		}
		if (r == R_EOF) break;
		if (r == R_CASE) {
			reset_case();
			printf("case %s\n", pending_case);
		}
	}
	return 0;
}
