/* C02 harness: one real IPC server (qb_ipcs + its own qb_loop, main thread) and one real
 * client (qb_ipcc, second thread) in one process, driven in lock step by a script on stdin.
 * Emits a protocol-level trace (one line per model action, see lean/QbVerif/Model/Ipc.lean and
 * tools/ipcgen.py) which is (a) replayed through the Lean model as an acceptor (qb_ipcaccept)
 * and (b) judged by an independent oracle in python.
 *
 * libc send/recv/writev/poll are defined here and therefore override libc for the statically
 * linked libqb objects: they count notification bytes, inject faults (EAGAIN on the k-th
 * notification, parked client between ring write and notification byte) and keep the trace in
 * real-time order.
 *
 * Script ops (stdin)                       trace lines (stdout)
 *   setup shm|sock MAX                     setup T max=M W=w reqhdr=.. reshdr=..
 *   C send SEQ LEN | C sendv SEQ LEN K     C call send|sendv SEQ LEN ; [C parked] ; [C nsent] ; C ret R
 *   C resume                               ([C parked] | [C nsent] C ret R) | C resume -> none
 *   C recv CAP | C evrecv CAP              C recv CAP -> LEN SEQ CK | E..
 *   C fcmax N ; C poll                     C fcmax N -> R ; C poll -> 0|1
 *   S run [N]                              S idle | S disp REV [ns=K:R] ; (S cb LEN SEQ CK ; nested ; S cbret RC)* ; S dispret RC nr=K pe=.. pr=..
 *   S evsend|evsendv|rsend|rsendv SEQ LEN [K]   S evsend SEQ LEN -> R [ns=K:R]* pe=..
 *   S rate FAST|NORMAL|SLOW|OFF|OFF2       S rate RL -> ok pe=.. pr=..
 *   S plan RC [rsend:SEQ:LEN|evsend:SEQ:LEN|rate:RL]...   (behaviour of the next msg_process call)
 *   S sndbuf N ; C sndbuf N                shrink SO_SNDBUF of the notification/datagram sockets
 *   fault ns K [N] | fault park K | fault spin N | fault dsc K [N] | fault dss K [N]
 *   quiesce                                S run until idle
 *   free NREQ NEVT SEED                    free-running burst (both threads run concurrently; oracle only)
 *   end                                    end residue=N
 */
#include "os_base.h"
#include <pthread.h>
#include <poll.h>
#include <dlfcn.h>
#include <stdarg.h>
#include <dirent.h>
#include <sys/socket.h>
#include <sys/uio.h>
#include <qb/qbdefs.h>
#include <qb/qbloop.h>
#include <qb/qbipcs.h>
#include <qb/qbipcc.h>
#include "ipc_int.h"
#include "ringbuffer_int.h"
#include "lineio.h"
#include "pr_msg.h"

/* ------------------------------------------------------------------ real libc entry points */
static ssize_t (*real_send)(int, const void *, size_t, int);
static ssize_t (*real_recv)(int, void *, size_t, int);
static ssize_t (*real_writev)(int, const struct iovec *, int);
static int (*real_poll)(struct pollfd *, nfds_t, int);

static void resolve(void)
{
	if (real_send) return;
	real_send = dlsym(RTLD_NEXT, "send");
	real_recv = dlsym(RTLD_NEXT, "recv");
	real_writev = dlsym(RTLD_NEXT, "writev");
	real_poll = dlsym(RTLD_NEXT, "poll");
}

/* ------------------------------------------------------------------ trace output */
static pthread_mutex_t tr_mu = PTHREAD_MUTEX_INITIALIZER;

static void emit_locked(const char *fmt, va_list ap)
{
	char buf[1024];
	int n = vsnprintf(buf, sizeof buf - 1, fmt, ap);
	if (n < 0) return;
	if (n > (int)sizeof buf - 2) n = sizeof buf - 2;
	buf[n++] = '\n';
	if (write(1, buf, n) < 0) { /* nothing */ }
}

static void emit(const char *fmt, ...)
{
	va_list ap;
	va_start(ap, fmt);
	pthread_mutex_lock(&tr_mu);
	emit_locked(fmt, ap);
	pthread_mutex_unlock(&tr_mu);
	va_end(ap);
}

/* ------------------------------------------------------------------ global state */
enum { R_NONE, R_SS, R_CS, R_SREQ, R_SEVT, R_CREQ, R_CEVT };
#define MAXFD 4096
static unsigned char role[MAXFD];

static qb_loop_t *loop;
static qb_ipcs_service_t *svc;
static qb_ipcs_connection_t *sconn;
static qb_ipcc_connection_t *cconn;
static int is_shm;
static size_t negotiated;
static pthread_t server_thr;
static int conn_destroyed;
static char svc_name[64];
static int case_serial;

/* in-flight notification bytes (sent - received), both directions */
static volatile long infl_c2s, infl_s2c;
/* observations made inside the current server API call */
static char sobs[512];
static int nr_in_disp;
/* faults */
static int fault_ns_at, fault_ns_n;	/* server notification sends: the at-th from now fails N times */
static int fault_park_at;		/* client notification byte: park before the at-th */
static int fault_spin;			/* EAGAINs the client library is shown on its notification byte before
					 * the harness parks the client (the library spins on EAGAIN there) */
static int cs_spin_left;		/* ... still to be shown in the current episode */
static int cs_park_due;			/* park at the next attempt */
static int fault_dsc_at, fault_dsc_n, fault_dss_at, fault_dss_n;
static int free_running;

/* dispatch registration table */
struct reg { qb_ipcs_dispatch_fn_t fn; void *data; int fd; };
static struct reg regs[MAXFD];
static int disp_fd = -1, disp_events, disp_prio;
static int pending_disp, pending_rev, disp_seen, disp_progress;

/* client mailbox */
enum { CL_IDLE, CL_RUN, CL_PARKED, CL_DONE };
enum { OP_CONNECT, OP_SEND, OP_SENDV, OP_RECV, OP_EVRECV, OP_POLL, OP_FCMAX, OP_DISCONNECT, OP_FREE, OP_QUIT };
static pthread_mutex_t cl_mu = PTHREAD_MUTEX_INITIALIZER;
static pthread_cond_t cl_cv = PTHREAD_COND_INITIALIZER;
static volatile int cl_state = CL_IDLE;
static int cl_resume;
static struct { int kind; uint32_t seq; size_t len; int k; size_t cap; long a, b, c; } cl_op;
static pthread_t client_thr;
static size_t req_max;
static volatile ssize_t cl_last;	/* result of the last client receive */

static const char *evs(int ev, char *b)
{
	int n = 0;
	if (ev & POLLIN) b[n++] = 'I';
	if (ev & POLLOUT) b[n++] = 'O';
	if (ev & POLLHUP) b[n++] = 'H';
	if (ev & POLLERR) b[n++] = 'E';
	if (ev & POLLNVAL) b[n++] = 'N';
	if (n == 0) b[n++] = '-';
	b[n] = 0;
	return b;
}

static const char *pe_str(void) { return (disp_events & POLLOUT) ? "IO" : "I"; }
static const char *pr_str(void)
{
	/* the service's priority (what _request_q_len_get looks at); for QB_IPC_SOCKET the loop
	 * registration keeps its original priority because dispatch_mod names the wrong socket */
	int p = svc ? (int)svc->poll_priority : disp_prio;
	return p == QB_LOOP_HIGH ? "HIGH" : p == QB_LOOP_MED ? "MED" : "LOW";
}

static void res_str(char *b, size_t n, ssize_t r)
{
	if (r < 0) snprintf(b, n, "%s", vl_errname((int)r)); else snprintf(b, n, "%zd", r);
}

/* ------------------------------------------------------------------ interposed libc */
static void client_park(void)
{
	emit("C parked");
	pthread_mutex_lock(&cl_mu);
	cl_state = CL_PARKED;
	cl_resume = 0;
	pthread_cond_broadcast(&cl_cv);
	while (!cl_resume) pthread_cond_wait(&cl_cv, &cl_mu);
	pthread_mutex_unlock(&cl_mu);
}

ssize_t send(int fd, const void *buf, size_t len, int flags)
{
	ssize_t r;
	int e;
	resolve();
	if (fd < 0 || fd >= MAXFD || role[fd] == R_NONE || free_running) {
		return real_send(fd, buf, len, flags);
	}
	switch (role[fd]) {
	case R_SS:	/* event notification bytes, server -> client */
		if (fault_ns_at > 0 && --fault_ns_at == 0) {
			if (infl_s2c >= 1 && fault_ns_n > 0) {
				/* a full socket: only legal while unread bytes exist */
				fault_ns_n--;
				if (fault_ns_n > 0) fault_ns_at = 1;
				snprintf(sobs + strlen(sobs), sizeof sobs - strlen(sobs), " ns=%zu:EAGAIN", len);
				errno = EAGAIN;
				return -1;
			}
		}
		r = real_send(fd, buf, len, flags);
		e = errno;
		if (r > 0) { __sync_fetch_and_add(&infl_s2c, r); disp_progress = 1; }
		if (r < 0) snprintf(sobs + strlen(sobs), sizeof sobs - strlen(sobs), " ns=%zu:%s", len, vl_errname(e));
		else snprintf(sobs + strlen(sobs), sizeof sobs - strlen(sobs), " ns=%zu:%zd", len, r);
		errno = e;
		return r;
	case R_CS:	/* request notification byte, client -> server */
		if (cs_spin_left > 0) {
			/* the socket is (or is declared) full: the library sees EAGAIN and tries again */
			cs_spin_left--;
			errno = EAGAIN;
			return -1;
		}
		for (;;) {
			if (cs_park_due) {
				cs_park_due = 0;
				client_park();
				continue;
			}
			if (fault_park_at > 0 && --fault_park_at == 0) {
				cs_park_due = 1;
				if (fault_spin > 0 && infl_c2s >= 1) {
					/* a full socket: only legal while unread bytes exist */
					cs_spin_left = fault_spin - 1;
					errno = EAGAIN;
					return -1;
				}
				continue;
			}
			pthread_mutex_lock(&tr_mu);
			r = real_send(fd, buf, len, flags);
			e = errno;
			if (r > 0) {
				static const char l[] = "C nsent\n";
				__sync_fetch_and_add(&infl_c2s, r);
				if (write(1, l, sizeof l - 1) < 0) { }
			}
			pthread_mutex_unlock(&tr_mu);
			if (r >= 0 || e != EAGAIN) {
				if (r < 0) emit("C nsend-err %s", vl_errname(e));
				errno = e;
				return r;
			}
			cs_park_due = 1;
			if (fault_spin > 0) {
				cs_spin_left = fault_spin - 1;
				errno = EAGAIN;
				return -1;
			}
		}
	case R_CREQ:
		if (fault_dsc_at > 0 && --fault_dsc_at == 0 && fault_dsc_n > 0) {
			if (--fault_dsc_n > 0) fault_dsc_at = 1;
			errno = EAGAIN;
			return -1;
		}
		return real_send(fd, buf, len, flags);
	case R_SREQ:
	case R_SEVT:
		if (fault_dss_at > 0 && --fault_dss_at == 0 && fault_dss_n > 0) {
			if (--fault_dss_n > 0) fault_dss_at = 1;
			errno = EAGAIN;
			return -1;
		}
		return real_send(fd, buf, len, flags);
	default:
		return real_send(fd, buf, len, flags);
	}
}

ssize_t writev(int fd, const struct iovec *iov, int cnt)
{
	resolve();
	if (fd >= 0 && fd < MAXFD && !free_running) {
		if (role[fd] == R_CREQ && fault_dsc_at > 0 && --fault_dsc_at == 0 && fault_dsc_n > 0) {
			if (--fault_dsc_n > 0) fault_dsc_at = 1;
			errno = EAGAIN;
			return -1;
		}
		if ((role[fd] == R_SREQ || role[fd] == R_SEVT) && fault_dss_at > 0 && --fault_dss_at == 0 && fault_dss_n > 0) {
			if (--fault_dss_n > 0) fault_dss_at = 1;
			errno = EAGAIN;
			return -1;
		}
	}
	return real_writev(fd, iov, cnt);
}

ssize_t recv(int fd, void *buf, size_t len, int flags)
{
	ssize_t r;
	int e;
	resolve();
	r = real_recv(fd, buf, len, flags);
	e = errno;
	if (r > 0 && fd >= 0 && fd < MAXFD && !(flags & MSG_PEEK)) {
		if (role[fd] == R_SS) { __sync_fetch_and_sub(&infl_c2s, r); nr_in_disp += r; }
		else if (role[fd] == R_CS) __sync_fetch_and_sub(&infl_s2c, r);
	}
	errno = e;
	return r;
}

int poll(struct pollfd *fds, nfds_t n, int timeout)
{
	resolve();
	if (!free_running && timeout == -1 && loop && pthread_equal(pthread_self(), server_thr) && n == 1 &&
	    fds[0].fd >= 0 && fds[0].fd < MAXFD && role[fds[0].fd] == R_SS) {
		/* the server waits for a notification byte the parked client still owes: release the
		 * client (the library's client spins on EAGAIN there, it never sleeps), and keep doing so
		 * while waiting -- the released client may find the socket still full (the server has
		 * not read yet) and park again just after this check */
		for (;;) {
			int pr;
			pthread_mutex_lock(&cl_mu);
			if (cl_state == CL_PARKED) {
				cl_state = CL_RUN;
				cl_resume = 1;
				pthread_cond_broadcast(&cl_cv);
			}
			pthread_mutex_unlock(&cl_mu);
			pr = real_poll(fds, n, 20);
			if (pr != 0) {
				return pr;
			}
		}
	}
	return real_poll(fds, n, timeout);
}

/* ------------------------------------------------------------------ messages */
static unsigned char *mk_msg(uint32_t seq, size_t len)
{
	unsigned char *b = malloc(len + 8);
	pr_build(b, seq, len);
	return b;
}

/* "LEN SEQ CK[ CORRUPT@i]" for received bytes */
static void describe(char *out, size_t n, const unsigned char *b, size_t len)
{
	uint32_t seq = pr_seq_of(b, len);
	unsigned char *e = mk_msg(seq, len);
	size_t i;
	int k = snprintf(out, n, "%zu %u %u", len, seq, pr_ck(b, len));
	for (i = 0; i < len; i++) {
		if (e[i] != b[i]) { snprintf(out + k, n - k, " CORRUPT@%zu", i); break; }
	}
	free(e);
}

static int split_iov(struct iovec *iov, unsigned char *b, size_t len, int k)
{
	int i;
	if (k < 1) k = 1;
	if (k > 8) k = 8;
	for (i = 0; i < k; i++) {
		size_t lo = len * i / k, hi = len * (i + 1) / k;
		iov[i].iov_base = b + lo;
		iov[i].iov_len = hi - lo;
	}
	return k;
}

/* ------------------------------------------------------------------ server side */
static void flush_disp(void)
{
	char b[8];
	if (!pending_disp) return;
	pending_disp = 0;
	emit("S disp %s%s", evs(pending_rev, b), sobs);
	sobs[0] = 0;
}

static void do_ssend(const char *what, uint32_t seq, size_t len, int k)
{
	unsigned char *m = mk_msg(seq, len);
	struct iovec iov[8];
	ssize_t r;
	char rs[32];
	int isev = (what[0] == 'e');
	int vec = (what[strlen(what) - 1] == 'v');
	char saved[sizeof sobs];
	/* observations of an enclosing dispatch stay with it */
	strcpy(saved, sobs);
	sobs[0] = 0;
	if (!sconn) { emit("S %s %u %zu -> ENOTCONN", what, seq, len); free(m); return; }
	if (vec) {
		k = split_iov(iov, m, len, k);
		r = isev ? qb_ipcs_event_sendv(sconn, iov, k) : qb_ipcs_response_sendv(sconn, iov, k);
	} else {
		r = isev ? qb_ipcs_event_send(sconn, m, len) : qb_ipcs_response_send(sconn, m, len);
	}
	res_str(rs, sizeof rs, r);
	if (vec) emit("S %s %u %zu %d -> %s%s pe=%s", what, seq, len, k, rs, sobs, pe_str());
	else emit("S %s %u %zu -> %s%s pe=%s", what, seq, len, rs, sobs, pe_str());
	strcpy(sobs, saved);
	free(m);
}

static int rl_of(const char *s)
{
	if (!strcmp(s, "FAST")) return QB_IPCS_RATE_FAST;
	if (!strcmp(s, "NORMAL")) return QB_IPCS_RATE_NORMAL;
	if (!strcmp(s, "SLOW")) return QB_IPCS_RATE_SLOW;
	if (!strcmp(s, "OFF")) return QB_IPCS_RATE_OFF;
	if (!strcmp(s, "OFF2")) return QB_IPCS_RATE_OFF_2;
	return -1;
}

static void do_rate(const char *s)
{
	int rl = rl_of(s);
	if (rl < 0 || !svc) { emit("S rate %s -> bad", s); return; }
	qb_ipcs_request_rate_limit(svc, rl);
	emit("S rate %s -> ok pe=%s pr=%s", s, pe_str(), pr_str());
}

#define MAXPLAN 4096
static char *plans[MAXPLAN];
static int plan_head, plan_tail;

static void run_plan_ops(char *p)
{
	/* tokens separated by spaces: rsend:SEQ:LEN evsend:SEQ:LEN rsendv:SEQ:LEN:K rate:RL */
	char *save = NULL, *t;
	for (t = strtok_r(p, " ", &save); t; t = strtok_r(NULL, " ", &save)) {
		char *f[5] = { 0 };
		int nf = 0;
		char *s2 = NULL, *x;
		for (x = strtok_r(t, ":", &s2); x && nf < 5; x = strtok_r(NULL, ":", &s2)) f[nf++] = x;
		if (nf >= 2 && !strcmp(f[0], "rate")) do_rate(f[1]);
		else if (nf >= 3) do_ssend(f[0], strtoul(f[1], NULL, 10), strtoull(f[2], NULL, 10), nf > 3 ? atoi(f[3]) : 2);
	}
}

static int32_t s_msg_process(qb_ipcs_connection_t *c, void *data, size_t size)
{
	char d[128];
	int rc = 0;
	if (free_running) {
		extern int32_t free_msg(qb_ipcs_connection_t *, void *, size_t);
		return free_msg(c, data, size);
	}
	flush_disp();
	disp_progress = 1;
	describe(d, sizeof d, data, size);
	emit("S cb %s", d);
	if (plan_head != plan_tail) {
		char *p = plans[plan_head % MAXPLAN];
		char *sp;
		plan_head++;
		rc = (int)strtol(p, &sp, 10);
		run_plan_ops(sp);
		free(p);
	}
	emit("S cbret %d", rc);
	return rc;
}

static int32_t s_accept(qb_ipcs_connection_t *c, uid_t u, gid_t g) { return 0; }
static void s_created(qb_ipcs_connection_t *c) { sconn = c; }
static int32_t s_closed(qb_ipcs_connection_t *c) { return 0; }
static void s_destroyed(qb_ipcs_connection_t *c) { if (c == sconn) sconn = NULL; conn_destroyed = 1; }

static int32_t disp_wrapper(int32_t fd, int32_t revents, void *data)
{
	struct reg *r = data;
	int32_t res;
	int mine = (r->fn == qb_ipcs_dispatch_connection_request) && !free_running;
	if (mine) {
		pending_disp = 1;
		pending_rev = revents;
		nr_in_disp = 0;
		sobs[0] = 0;
	}
	res = r->fn(fd, revents, r->data);
	if (mine) {
		char rs[32];
		flush_disp();
		res_str(rs, sizeof rs, res);
		emit("S dispret %s nr=%d pe=%s pr=%s", rs, nr_in_disp, pe_str(), pr_str());
		disp_seen = 1;
		if (nr_in_disp > 0) disp_progress = 1;
		qb_loop_stop(loop);
	}
	return res;
}

static void note_reg(enum qb_loop_priority p, int32_t fd, int32_t events, qb_ipcs_dispatch_fn_t fn)
{
	if (fn == qb_ipcs_dispatch_connection_request) {
		disp_fd = fd;
		disp_events = events;
		disp_prio = p;
	}
}

static int32_t my_job_add(enum qb_loop_priority p, void *data, qb_loop_job_dispatch_fn fn)
{
	return qb_loop_job_add(loop, p, data, fn);
}
static int32_t my_dispatch_add(enum qb_loop_priority p, int32_t fd, int32_t events, void *data, qb_ipcs_dispatch_fn_t fn)
{
	if (fd < 0 || fd >= MAXFD) return -EINVAL;
	regs[fd].fn = fn; regs[fd].data = data; regs[fd].fd = fd;
	note_reg(p, fd, events, fn);
	return qb_loop_poll_add(loop, p, fd, events, &regs[fd], disp_wrapper);
}
static int32_t my_dispatch_mod(enum qb_loop_priority p, int32_t fd, int32_t events, void *data, qb_ipcs_dispatch_fn_t fn)
{
	if (fd < 0 || fd >= MAXFD) return -EINVAL;
	{
		/* lib/ipcs.c:_modify_dispatch_descriptor_ names the event socket for QB_IPC_SOCKET, which is
		 * not registered: the modification fails there and must not be recorded */
		int32_t rc;
		struct reg old = regs[fd];
		regs[fd].fn = fn; regs[fd].data = data; regs[fd].fd = fd;
		rc = qb_loop_poll_mod(loop, p, fd, events, &regs[fd], disp_wrapper);
		if (rc == 0) note_reg(p, fd, events, fn); else regs[fd] = old;
		return rc;
	}
}
static int32_t my_dispatch_del(int32_t fd)
{
	if (fd == disp_fd) disp_fd = -1;
	return qb_loop_poll_del(loop, fd);
}

static void stop_cb(void *d) { qb_loop_stop(loop); }

/* run the loop for at most ms milliseconds (or until something calls qb_loop_stop) */
static void run_loop_ms(int ms)
{
	qb_loop_timer_handle th = 0;
	qb_loop_timer_add(loop, QB_LOOP_HIGH, (uint64_t)ms * QB_TIME_NS_IN_MSEC, NULL, stop_cb, &th);
	qb_loop_run(loop);
	qb_loop_timer_del(loop, th);
}

static void cl_settle(void)
{
	pthread_mutex_lock(&cl_mu);
	while (cl_state == CL_RUN) pthread_cond_wait(&cl_cv, &cl_mu);
	pthread_mutex_unlock(&cl_mu);
}

/* is the descriptor the server loop polls (with the registered events) not ready right now */
static int srv_idle(void)
{
	struct pollfd p;
	int r;
	if (disp_fd < 0) return 1;
	p.fd = disp_fd;
	p.events = disp_events & (POLLIN | POLLOUT | POLLPRI);
	p.revents = 0;
	r = real_poll(&p, 1, 0);
	return !(r > 0 && (p.revents & (POLLIN | POLLOUT | POLLPRI | POLLHUP | POLLERR)));
}

/* one dispatch of the connection's descriptor if it is ready; returns 1 if it made progress
 * (a request processed, notification bytes consumed or sent) */
static int do_run_once(void)
{
	struct pollfd p;
	int r;
	if (disp_fd < 0) { emit("S idle"); return 0; }
	p.fd = disp_fd;
	p.events = disp_events & (POLLIN | POLLOUT | POLLPRI);
	p.revents = 0;
	r = real_poll(&p, 1, 0);
	if (r <= 0 || (p.revents & (POLLIN | POLLOUT | POLLPRI | POLLHUP | POLLERR)) == 0) {
		emit("S idle");
		return 0;
	}
	disp_seen = 0;
	disp_progress = 0;
	run_loop_ms(2000);
	cl_settle();
	if (!disp_seen) { emit("S nodisp"); return 0; }
	return disp_progress;
}

/* ------------------------------------------------------------------ client thread */
static void client_exec(void)
{
	char d[160], rs[32];
	unsigned char *m;
	ssize_t r;
	struct iovec iov[8];
	switch (cl_op.kind) {
	case OP_CONNECT:
		cconn = qb_ipcc_connect(svc_name, req_max);
		break;
	case OP_SEND:
		m = mk_msg(cl_op.seq, cl_op.len);
		emit("C call send %u %zu", cl_op.seq, cl_op.len);
		cs_spin_left = cs_park_due = 0;
		r = qb_ipcc_send(cconn, m, cl_op.len);
		res_str(rs, sizeof rs, r);
		emit("C ret %s", rs);
		free(m);
		break;
	case OP_SENDV: {
		int k;
		m = mk_msg(cl_op.seq, cl_op.len);
		k = split_iov(iov, m, cl_op.len, cl_op.k);
		emit("C call sendv %u %zu %d", cl_op.seq, cl_op.len, k);
		cs_spin_left = cs_park_due = 0;
		r = qb_ipcc_sendv(cconn, iov, k);
		res_str(rs, sizeof rs, r);
		emit("C ret %s", rs);
		free(m);
		break;
	}
	case OP_RECV:
	case OP_EVRECV: {
		size_t alloc = QB_MAX(cl_op.cap, negotiated + 65536);
		const char *w = cl_op.kind == OP_RECV ? "recv" : "evrecv";
		m = malloc(alloc);
		r = cl_op.kind == OP_RECV ? qb_ipcc_recv(cconn, m, cl_op.cap, 0) : qb_ipcc_event_recv(cconn, m, cl_op.cap, 0);
		cl_last = r;
		if (r < 0) emit("C %s %zu -> %s", w, cl_op.cap, vl_errname((int)r));
		else { describe(d, sizeof d, m, r); emit("C %s %zu -> %s", w, cl_op.cap, d); }
		free(m);
		break;
	}
	case OP_POLL: {
		struct pollfd p;
		int32_t fd = -1;
		qb_ipcc_fd_get(cconn, &fd);
		p.fd = fd; p.events = POLLIN; p.revents = 0;
		r = real_poll(&p, 1, 0);
		emit("C poll -> %d sidle=%d", (r > 0 && (p.revents & POLLIN)) ? 1 : 0, cl_op.k);
		break;
	}
	case OP_FCMAX:
		r = qb_ipcc_fc_enable_max_set(cconn, cl_op.k);
		res_str(rs, sizeof rs, r);
		emit("C fcmax %d -> %s", cl_op.k, rs);
		break;
	case OP_DISCONNECT:
		if (cconn) qb_ipcc_disconnect(cconn);
		cconn = NULL;
		break;
	case OP_FREE: {
		extern void free_client(long, long, long);
		free_client(cl_op.a, cl_op.b, cl_op.c);
		break;
	}
	default:
		break;
	}
}

static void *client_main(void *arg)
{
	for (;;) {
		pthread_mutex_lock(&cl_mu);
		while (cl_state != CL_RUN) pthread_cond_wait(&cl_cv, &cl_mu);
		pthread_mutex_unlock(&cl_mu);
		if (cl_op.kind == OP_QUIT) break;
		client_exec();
		pthread_mutex_lock(&cl_mu);
		cl_state = CL_DONE;
		pthread_cond_broadcast(&cl_cv);
		pthread_mutex_unlock(&cl_mu);
	}
	return NULL;
}

static void cl_do_resume(void);
static int srv_idle(void);

/* post an op; wait==1: until done or parked */
static void cl_post(int kind, int wait)
{
	cl_settle();
	if (cl_state == CL_PARKED) {
		/* the previous send call has not returned yet: let it continue first */
		struct { int kind; uint32_t seq; size_t len; int k; size_t cap; long a, b, c; } saved;
		memcpy(&saved, &cl_op, sizeof saved);
		cl_do_resume();
		if (cl_state == CL_PARKED) {
			emit("C skip-parked");
			cl_last = -1;
			return;
		}
		memcpy(&cl_op, &saved, sizeof saved);
	}
	if (kind == OP_POLL) cl_op.k = srv_idle();
	pthread_mutex_lock(&cl_mu);
	cl_op.kind = kind;
	cl_state = CL_RUN;
	pthread_cond_broadcast(&cl_cv);
	if (wait) while (cl_state == CL_RUN) pthread_cond_wait(&cl_cv, &cl_mu);
	pthread_mutex_unlock(&cl_mu);
}

static void cl_do_resume(void)
{
	pthread_mutex_lock(&cl_mu);
	if (cl_state != CL_PARKED) {
		pthread_mutex_unlock(&cl_mu);
		cl_settle();
		emit("C resume -> none");
		return;
	}
	cl_state = CL_RUN;
	cl_resume = 1;
	pthread_cond_broadcast(&cl_cv);
	while (cl_state == CL_RUN) pthread_cond_wait(&cl_cv, &cl_mu);
	pthread_mutex_unlock(&cl_mu);
}

/* ------------------------------------------------------------------ free-running burst */
/* Both sides run concurrently with OS-chosen timing: the client sends NREQ requests (retrying
 * on EAGAIN) and receives everything the server sends; the server answers every request and
 * sends NEVT events in between, toggling the rate limit.  Only the summary is printed:
 * "free req=a/b resp=c/d evt=e/f order=ok|BAD corrupt=n dup=n". */
static long fr_nreq, fr_nevt, fr_seed;
static volatile long fr_req_seen, fr_req_bad, fr_req_order_bad, fr_evt_sent, fr_resp_sent, fr_resp_fail;
static long fr_next_req;
static volatile int fr_client_done;
static long fr_evt_q, fr_resp_q;	/* messages the server still has to push */

static int verify(const unsigned char *b, size_t len, uint32_t want_seq)
{
	unsigned char *e;
	int ok;
	if (pr_seq_of(b, len) != want_seq) return 0;
	e = mk_msg(want_seq, len);
	ok = memcmp(e, b, len) == 0;
	free(e);
	return ok;
}

static size_t fr_len(long seed, uint32_t seq, size_t lo)
{
	uint32_t x = (uint32_t)seed * 2654435761u + seq * 40503u;
	x ^= x >> 13; x *= 0x5bd1e995u; x ^= x >> 15;
	switch (x % 7) {
	case 0: return lo;
	case 1: return negotiated;
	case 2: return negotiated - (x >> 8) % 9;
	case 3: return lo + (x >> 8) % 64;
	default: return lo + (x >> 8) % (negotiated - lo + 1);
	}
}

static void fr_push(void)
{
	/* pending responses first (FIFO), then events */
	while (fr_resp_q > 0 && sconn) {
		uint32_t seq = 2000000 + (uint32_t)fr_resp_sent;
		size_t len = fr_len(fr_seed + 1, seq, sizeof(struct qb_ipc_response_header));
		unsigned char *m = mk_msg(seq, len);
		ssize_t r = qb_ipcs_response_send(sconn, m, len);
		free(m);
		if (r != (ssize_t)len) { fr_resp_fail++; break; }
		fr_resp_sent++; fr_resp_q--;
	}
	while (fr_evt_q > 0 && sconn) {
		uint32_t seq = 1000000 + (uint32_t)fr_evt_sent;
		size_t len = fr_len(fr_seed + 2, seq, sizeof(struct qb_ipc_response_header));
		unsigned char *m = mk_msg(seq, len);
		ssize_t r = qb_ipcs_event_send(sconn, m, len);
		free(m);
		if (r != (ssize_t)len) break;
		fr_evt_sent++; fr_evt_q--;
	}
}

int32_t free_msg(qb_ipcs_connection_t *c, void *data, size_t size)
{
	uint32_t want = (uint32_t)fr_next_req;
	size_t wl = fr_len(fr_seed, want, sizeof(struct qb_ipc_request_header));
	if (pr_seq_of(data, size) != want) fr_req_order_bad++;
	else if (size != wl || !verify(data, size, want)) fr_req_bad++;
	fr_next_req++;
	fr_req_seen++;
	fr_resp_q++;
	if (fr_nevt > 0 && fr_req_seen * fr_nevt / (fr_nreq ? fr_nreq : 1) > fr_evt_sent + fr_evt_q) fr_evt_q++;
	/* rate-limit toggles mid-stream */
	if (fr_req_seen % 37 == 11) qb_ipcs_request_rate_limit(svc, QB_IPCS_RATE_OFF);
	if (fr_req_seen % 53 == 7) qb_ipcs_request_rate_limit(svc, QB_IPCS_RATE_SLOW);
	if (fr_req_seen % 29 == 3) qb_ipcs_request_rate_limit(svc, QB_IPCS_RATE_FAST);
	fr_push();
	return (fr_req_seen % 17 == 5) ? -1 : 0;
}

static void fr_tick(void *d)
{
	static int n;
	qb_loop_timer_handle th;
	/* leave flow control regularly so that the stream makes progress */
	if (++n % 3 == 0) qb_ipcs_request_rate_limit(svc, (n % 2) ? QB_IPCS_RATE_NORMAL : QB_IPCS_RATE_FAST);
	fr_push();
	if (fr_client_done) { qb_loop_stop(loop); return; }
	qb_loop_timer_add(loop, QB_LOOP_HIGH, 1 * QB_TIME_NS_IN_MSEC, NULL, fr_tick, &th);
}

static long frc_resp, frc_evt, frc_bad, frc_order, frc_sent, frc_retry;

void free_client(long nreq, long nevt, long seed)
{
	unsigned char *buf = malloc(negotiated + 65536);
	long sent = 0, spins = 0;
	frc_resp = frc_evt = frc_bad = frc_order = frc_sent = frc_retry = 0;
	while ((frc_resp < nreq || frc_evt < nevt || sent < nreq) && spins < 4000000) {
		ssize_t r;
		int progress = 0;
		if (sent < nreq) {
			uint32_t seq = (uint32_t)sent;
			size_t len = fr_len(seed, seq, sizeof(struct qb_ipc_request_header));
			unsigned char *m = mk_msg(seq, len);
			if (seq % 3 == 1) {
				struct iovec iov[8];
				int k = split_iov(iov, m, len, 1 + seq % 4);
				r = qb_ipcc_sendv(cconn, iov, k);
			} else {
				r = qb_ipcc_send(cconn, m, len);
			}
			free(m);
			if (r == (ssize_t)len) { sent++; progress = 1; }
			else if (r == -EAGAIN) frc_retry++;
			else { frc_bad++; break; }
		}
		r = qb_ipcc_recv(cconn, buf, negotiated, 0);
		if (r > 0) {
			uint32_t want = 2000000 + (uint32_t)frc_resp;
			if (pr_seq_of(buf, r) != want) frc_order++;
			else if ((size_t)r != fr_len(seed + 1, want, sizeof(struct qb_ipc_response_header)) || !verify(buf, r, want)) frc_bad++;
			frc_resp++; progress = 1;
		}
		r = qb_ipcc_event_recv(cconn, buf, negotiated, 0);
		if (r > 0) {
			uint32_t want = 1000000 + (uint32_t)frc_evt;
			if (pr_seq_of(buf, r) != want) frc_order++;
			else if ((size_t)r != fr_len(seed + 2, want, sizeof(struct qb_ipc_response_header)) || !verify(buf, r, want)) frc_bad++;
			frc_evt++; progress = 1;
		}
		if (!progress) { spins++; if (spins % 64 == 0) usleep(200); } else spins = 0;
	}
	frc_sent = sent;
	free(buf);
	fr_client_done = 1;
}

static void do_free(long nreq, long nevt, long seed)
{
	qb_loop_timer_handle th;
	if (!sconn || !cconn) { emit("free -> ENOTCONN"); return; }
	fr_nreq = nreq; fr_nevt = nevt; fr_seed = seed;
	fr_req_seen = fr_req_bad = fr_req_order_bad = fr_evt_sent = fr_resp_sent = fr_resp_fail = 0;
	fr_next_req = 0; fr_client_done = 0; fr_evt_q = 0; fr_resp_q = 0;
	free_running = 1;
	cl_op.a = nreq; cl_op.b = nevt; cl_op.c = seed;
	cl_post(OP_FREE, 0);
	qb_loop_timer_add(loop, QB_LOOP_HIGH, 1 * QB_TIME_NS_IN_MSEC, NULL, fr_tick, &th);
	qb_loop_run(loop);
	cl_settle();
	free_running = 0;
	qb_ipcs_request_rate_limit(svc, QB_IPCS_RATE_NORMAL);
	emit("free req=%ld/%ld/%ld resp=%ld/%ld evt=%ld/%ld order=%ld corrupt=%ld retries=%ld", fr_req_seen, frc_sent, nreq,
	     frc_resp, fr_resp_sent, frc_evt, fr_evt_sent, fr_req_order_bad + frc_order, fr_req_bad + frc_bad, frc_retry);
}

/* ------------------------------------------------------------------ set-up / tear-down */
static int count_residue(void)
{
	DIR *d = opendir("/dev/shm");
	struct dirent *e;
	char pfx[32];
	int n = 0;
	if (!d) return -1;
	snprintf(pfx, sizeof pfx, "qb-%d-", (int)getpid());
	while ((e = readdir(d))) if (!strncmp(e->d_name, pfx, strlen(pfx))) n++;
	closedir(d);
	return n;
}

static void teardown(void)
{
	int i;
	if (!svc) return;
	memset(role, 0, sizeof role);
	if (cconn) {
		/* a parked client must be released first */
		pthread_mutex_lock(&cl_mu);
		if (cl_state == CL_PARKED) { cl_state = CL_RUN; cl_resume = 1; pthread_cond_broadcast(&cl_cv); }
		pthread_mutex_unlock(&cl_mu);
		cl_settle();
		free_running = 1;	/* interposers pass through from here on */
		cl_post(OP_DISCONNECT, 1);
	}
	free_running = 1;
	conn_destroyed = 0;
	for (i = 0; i < 50 && sconn && !conn_destroyed; i++) run_loop_ms(5);
	qb_ipcs_destroy(svc);
	svc = NULL;
	run_loop_ms(2);
	qb_loop_destroy(loop);
	loop = NULL;
	sconn = NULL;
	disp_fd = -1;
	while (plan_head != plan_tail) { free(plans[plan_head % MAXPLAN]); plan_head++; }
	free_running = 0;
	fault_ns_at = fault_park_at = fault_dsc_at = fault_dss_at = 0;
	fault_spin = cs_spin_left = cs_park_due = 0;
	infl_c2s = infl_s2c = 0;
	sobs[0] = 0;
}

static void do_setup(const char *type, size_t max)
{
	struct qb_ipcs_service_handlers sh = {
		.connection_accept = s_accept, .connection_created = s_created, .msg_process = s_msg_process,
		.connection_closed = s_closed, .connection_destroyed = s_destroyed,
	};
	struct qb_ipcs_poll_handlers ph = {
		.job_add = my_job_add, .dispatch_add = my_dispatch_add, .dispatch_mod = my_dispatch_mod,
		.dispatch_del = my_dispatch_del,
	};
	int i;
	uint32_t W = 0;
	teardown();
	is_shm = strcmp(type, "sock") != 0;
	snprintf(svc_name, sizeof svc_name, "vp%dc%d", (int)getpid(), case_serial++);
	loop = qb_loop_create();
	svc = qb_ipcs_create(svc_name, 0, is_shm ? QB_IPC_SHM : QB_IPC_SOCKET, &sh);
	qb_ipcs_poll_handlers_set(svc, &ph);
	if (qb_ipcs_run(svc) != 0) { emit("setup -> run-failed"); svc = NULL; return; }
	req_max = max;
	free_running = 1;
	cl_post(OP_CONNECT, 0);
	for (i = 0; i < 2000 && cl_state == CL_RUN; i++) run_loop_ms(2);
	cl_settle();
	for (i = 0; i < 100 && cconn && !sconn; i++) run_loop_ms(2);
	free_running = 0;
	if (!cconn || !sconn) { emit("setup -> connect-failed %s", vl_errname(errno)); return; }
	negotiated = qb_ipcc_get_buffer_size(cconn);
	if (is_shm) {
		role[sconn->setup.u.us.sock] = R_SS;
		role[cconn->setup.u.us.sock] = R_CS;
		W = sconn->request.u.shm.rb->shared_hdr->word_size;
	} else {
		role[sconn->request.u.us.sock] = R_SREQ;
		role[sconn->event.u.us.sock] = R_SEVT;
		role[cconn->request.u.us.sock] = R_CREQ;
		role[cconn->event.u.us.sock] = R_CEVT;
	}
	emit("setup %s max=%zu W=%u page=%ld reqhdr=%zu reshdr=%zu pe=%s pr=%s", is_shm ? "shm" : "sock", negotiated, W,
	     sysconf(_SC_PAGESIZE), sizeof(struct qb_ipc_request_header), sizeof(struct qb_ipc_response_header),
	     pe_str(), pr_str());
}

static void set_sndbuf(int fd, int n)
{
	if (fd >= 0) setsockopt(fd, SOL_SOCKET, SO_SNDBUF, &n, sizeof n);
}

int main(void)
{
	char *t[VL_MAXTOK];
	int nt;
	VL_INIT();
	resolve();
	server_thr = pthread_self();
	signal(SIGPIPE, SIG_IGN);
	if (offsetof(struct qb_ipc_request_header, size) != PR_SIZE_OFF) { printf("bad-layout\n"); return 2; }
	pthread_create(&client_thr, NULL, client_main, NULL);
	while ((nt = vl_read(t)) >= 0) {
		if (!strcmp(t[0], "case")) {
			teardown();
			emit("case %s", nt > 1 ? t[1] : "");
		} else if (!strcmp(t[0], "setup") && nt >= 3) {
			do_setup(t[1], strtoull(t[2], NULL, 10));
		} else if (!strcmp(t[0], "end")) {
			teardown();
			emit("end residue=%d", count_residue());
		} else if (!svc || !sconn || !cconn) {
			emit("bad-op no-connection");
		} else if (!strcmp(t[0], "C") && nt >= 2) {
			if (!strcmp(t[1], "resume")) { cl_do_resume(); continue; }
			cl_op.seq = nt > 2 ? strtoul(t[2], NULL, 10) : 0;
			cl_op.len = nt > 3 ? strtoull(t[3], NULL, 10) : 0;
			cl_op.k = nt > 4 ? atoi(t[4]) : 2;
			if (!strcmp(t[1], "send")) cl_post(OP_SEND, 1);
			else if (!strcmp(t[1], "sendv")) cl_post(OP_SENDV, 1);
			else if (!strcmp(t[1], "recv")) { cl_op.cap = strtoull(t[2], NULL, 10); cl_post(OP_RECV, 1); }
			else if (!strcmp(t[1], "evrecv")) { cl_op.cap = strtoull(t[2], NULL, 10); cl_post(OP_EVRECV, 1); }
			else if (!strcmp(t[1], "poll")) cl_post(OP_POLL, 1);
			else if (!strcmp(t[1], "fcmax")) { cl_op.k = atoi(t[2]); cl_post(OP_FCMAX, 1); }
			else if (!strcmp(t[1], "sndbuf")) {
				set_sndbuf(is_shm ? cconn->setup.u.us.sock : cconn->request.u.us.sock, atoi(t[2]));
				emit("C sndbuf %s -> ok", t[2]);
			} else emit("bad-op");
		} else if (!strcmp(t[0], "S") && nt >= 2) {
			if (!strcmp(t[1], "run")) {
				int n = nt > 2 ? atoi(t[2]) : 1;
				while (n-- > 0 && do_run_once()) { }
			} else if ((!strcmp(t[1], "evsend") || !strcmp(t[1], "rsend") || !strcmp(t[1], "evsendv") || !strcmp(t[1], "rsendv")) && nt >= 4) {
				do_ssend(t[1], strtoul(t[2], NULL, 10), strtoull(t[3], NULL, 10), nt > 4 ? atoi(t[4]) : 2);
			} else if (!strcmp(t[1], "rate") && nt >= 3) {
				do_rate(t[2]);
			} else if (!strcmp(t[1], "plan") && nt >= 3) {
				char b[1024];
				int i, k = 0;
				if (plan_tail - plan_head >= MAXPLAN) continue;
				b[0] = 0;
				for (i = 2; i < nt; i++) k += snprintf(b + k, sizeof b - k, "%s%s", i > 2 ? " " : "", t[i]);
				plans[plan_tail % MAXPLAN] = strdup(b);
				plan_tail++;
			} else if (!strcmp(t[1], "sndbuf") && nt >= 3) {
				set_sndbuf(is_shm ? sconn->setup.u.us.sock : sconn->event.u.us.sock, atoi(t[2]));
				if (!is_shm) set_sndbuf(sconn->request.u.us.sock, atoi(t[2]));
				emit("S sndbuf %s -> ok", t[2]);
			} else emit("bad-op");
		} else if (!strcmp(t[0], "quiesce")) {
			int n = 2000;
			while (n-- > 0 && do_run_once()) { }
		} else if (!strcmp(t[0], "drain")) {
			/* until a whole round makes no progress: server runs until idle, client receives
			 * every response and every event it can get */
			int rounds = 0, progress = 1, tries = 0;
			/* pending callback plans could switch flow control on again */
			while (plan_head != plan_tail) { free(plans[plan_head % MAXPLAN]); plan_head++; }
			while (cl_state == CL_PARKED && tries++ < 200) {
				cl_do_resume();
				if (cl_state == CL_PARKED) do_run_once();
			}
			while (progress && rounds++ < 5000) {
				int n = 2000;
				progress = 0;
				while (n-- > 0 && do_run_once()) progress = 1;
				for (;;) {
					cl_op.cap = negotiated + 4096; cl_post(OP_RECV, 1);
					if (cl_last <= 0) break;
					progress = 1;
				}
				for (;;) {
					cl_op.cap = negotiated + 4096; cl_post(OP_EVRECV, 1);
					if (cl_last <= 0) break;
					progress = 1;
				}
			}
		} else if (!strcmp(t[0], "fault") && nt >= 3) {
			int at = atoi(t[2]), n = nt > 3 ? atoi(t[3]) : 1;
			if (!strcmp(t[1], "ns")) { fault_ns_at = at; fault_ns_n = n; }
			else if (!strcmp(t[1], "park")) fault_park_at = at;
			else if (!strcmp(t[1], "spin")) fault_spin = at;
			else if (!strcmp(t[1], "dsc")) { fault_dsc_at = at; fault_dsc_n = n; }
			else if (!strcmp(t[1], "dss")) { fault_dss_at = at; fault_dss_n = n; }
		} else if (!strcmp(t[0], "free") && nt >= 4) {
			do_free(atol(t[1]), atol(t[2]), atol(t[3]));
		} else {
			emit("bad-op");
		}
	}
	teardown();
	cl_settle();
	pthread_mutex_lock(&cl_mu);
	cl_op.kind = OP_QUIT;
	cl_state = CL_RUN;
	pthread_cond_broadcast(&cl_cv);
	pthread_mutex_unlock(&cl_mu);
	pthread_join(client_thr, NULL);
	return 0;
}
