/* ipc_hostile.c -- C06 harness: the REAL libqb IPC server (ipcs.c, ipc_setup.c, ipc_shm.c,
 * ipc_socket.c on a real qb_loop) in this process under ASan, driven by hostile raw peers
 * that this same thread plays through plain sockets / the raw request channels, plus
 * well-behaved control clients (real qb_ipcc_* in a helper thread).
 *
 * One op per line, one result line per op; server callbacks are printed as extra lines
 * `cb ...` in the order they happen (see tools/wiregen.py for the grammar):
 *
 *   svc T MAXBUF          create+run a service (T = shm|sock; MAXBUF>0: qb_ipcs_enforce_buffer_size) -> ok
 *   accept_rc N           what connection_accept returns from now on                  -> ok
 *   hs_open P             raw peer P connects to the service's stream socket          -> ok | E..
 *   hs_send P HEX         write bytes to P's stream socket (no pump)                  -> sent N | closed
 *   hs_shutwr P           shutdown(SHUT_WR)                                           -> ok
 *   hs_close P            polite close (ring handle closed first)  / hs_die P: just close the fds -> ok
 *   pump                  run the server loop until quiescent                         -> cb lines, pumped
 *   hs_state P            what P sees on its stream socket                            -> pending | closed | resp ERR MAX TYPE
 *   attach P              open the raw request channel named in the response          -> ok | E..
 *   msg P ID SIZE LEN     emit a request of real length LEN whose header says id=ID size=SIZE -> sent N | closed | E..
 *   raw P HEX             emit the given bytes as one request datagram/chunk          -> sent N | closed | E..
 *   ctl_connect K MAX / ctl_echo K LEN / ctl_close K   well-behaved control client K  -> ok | echo LEN | E..
 *   residue               server-side descriptors above the baseline, /dev/shm/qb-<pid>-* entries -> fds D dirs K
 */
#include "hl_loop.h"

#define MAXPEER 16
#define ECHO_ID 100

struct peer {
	int fd;			/* stream (setup) socket, -1 = not open */
	int dg;			/* socket transport: request datagram socket */
	int32_t *ctl;		/* socket transport: mmap of the control file (sent counters) */
	qb_ringbuffer_t *rb;	/* shm transport: client-side handle of the request ring */
	int have_resp;
	struct qb_ipc_connection_response resp;
};

struct echo_resp {
	struct qb_ipc_response_header hdr;
	uint32_t got_size;
	uint32_t sum;
};

struct ctl {
	qb_ipcc_connection_t *c;
	int fds;		/* descriptors the client library holds */
};

static qb_ipcs_service_t *svc;
static char svc_name[64];
static int svc_type;		/* QB_IPC_SHM / QB_IPC_SOCKET */
static int svc_seq;
static int accept_rc;
static int base_fds;
static int base_dirs;	/* stale qb-<pid>-* entries of an earlier process with our (recycled) pid */
static int quiet;
static struct peer peers[MAXPEER];
static struct ctl ctls[MAXPEER];

static uint32_t bytesum(const unsigned char *b, size_t n)
{
	uint32_t s = 0;
	size_t i;
	for (i = 0; i < n; i++) s = s * 31 + b[i];
	return s;
}

/* ---- server callbacks ------------------------------------------------------------------ */
static int32_t cb_accept(qb_ipcs_connection_t *c, uid_t uid, gid_t gid)
{
	int id = hl_cid_new(c);
	if (!quiet) printf("cb accept c%d\n", id);
	return accept_rc;
}

static void cb_created(qb_ipcs_connection_t *c)
{
	if (!quiet) printf("cb created c%d\n", hl_cid(c));
}

static int32_t cb_msg(qb_ipcs_connection_t *c, void *data, size_t size)
{
	struct qb_ipc_request_header *h = data;
	if (!quiet) {
		printf("cb msg c%d size=%zu hdr=", hl_cid(c), size);
		vl_puthex(data, size < 16 ? size : 16);
		printf("\n");
	}
	if (size >= sizeof(*h) && h->id == ECHO_ID) {
		struct echo_resp r;
		memset(&r, 0, sizeof r);
		r.hdr.id = ECHO_ID + 1;
		r.hdr.size = sizeof r;
		r.got_size = (uint32_t)size;
		r.sum = bytesum(data, size);
		(void)qb_ipcs_response_send(c, &r, sizeof r);
	}
	return 0;
}

static int32_t cb_closed(qb_ipcs_connection_t *c)
{
	if (!quiet) printf("cb closed c%d\n", hl_cid(c));
	return 0;
}

static void cb_destroyed(qb_ipcs_connection_t *c)
{
	if (!quiet) printf("cb destroyed c%d\n", hl_cid(c));
	hl_cid_drop(c);
}

static struct qb_ipcs_service_handlers handlers = {
	.connection_accept = cb_accept,
	.connection_created = cb_created,
	.msg_process = cb_msg,
	.connection_closed = cb_closed,
	.connection_destroyed = cb_destroyed,
};

/* ---- raw peers ---------------------------------------------------------------------------- */
static void peer_release(struct peer *p, int polite)
{
	if (p->rb) {
		if (polite) qb_rb_close(p->rb);
		p->rb = NULL;	/* hs_die: the mapping is simply abandoned, as when a process dies */
	}
	if (p->ctl) { munmap(p->ctl, 24); p->ctl = NULL; }
	if (p->dg >= 0) { close(p->dg); p->dg = -1; }
	if (p->fd >= 0) { close(p->fd); p->fd = -1; }
	p->have_resp = 0;
}

static int stream_dead(int fd)
{
	char b;
	ssize_t n = recv(fd, &b, 1, MSG_PEEK | MSG_DONTWAIT);
	if (n == 0) return 1;
	if (n < 0 && errno != EAGAIN && errno != EWOULDBLOCK && errno != EINTR) return 1;
	return 0;
}

static void emit(struct peer *p, unsigned char *buf, size_t len)
{
	if (p->fd < 0 || (p->dg < 0 && p->rb == NULL)) { printf("ENOTCONN\n"); return; }
	if (stream_dead(p->fd)) { printf("closed\n"); return; }
	if (p->dg >= 0) {
		ssize_t n = send(p->dg, buf, len, MSG_DONTWAIT | MSG_NOSIGNAL);
		if (n < 0) {
			if (errno == ECONNREFUSED || errno == ENOTCONN || errno == EPIPE || errno == ECONNRESET)
				printf("closed\n");
			else
				printf("%s\n", vl_errname(errno));
			return;
		}
		if (p->ctl) __sync_fetch_and_add(&p->ctl[0], 1);	/* request channel `sent` counter */
		printf("sent %zd\n", n);
	} else {
		ssize_t n = qb_rb_chunk_write(p->rb, buf, len);
		if (n < 0) { printf("%s\n", vl_errname((int)-n)); return; }
		if (send(p->fd, "x", 1, MSG_DONTWAIT | MSG_NOSIGNAL) != 1) { printf("closed\n"); return; }
		printf("sent %zd\n", n);
	}
}

/* ---- control clients (helper thread for the blocking client-library calls) ------------------ */
struct job {
	int kind;		/* 0 connect, 1 echo */
	struct ctl *k;
	size_t arg;
	int rc;
	volatile int done;
};

static void *ctl_thread(void *a)
{
	struct job *j = a;
	if (j->kind == 0) {
		j->k->c = qb_ipcc_connect(svc_name, j->arg);
		j->rc = j->k->c ? 0 : -errno;
	} else {
		size_t len = j->arg, i;
		unsigned char *m = calloc(1, len + 16);
		struct qb_ipc_request_header *h = (void *)m;
		struct echo_resp r;
		struct iovec iov;
		ssize_t n;
		for (i = 16; i < len; i++) m[i] = (unsigned char)(i * 7 + len);
		h->id = ECHO_ID;
		h->size = (int32_t)len;
		iov.iov_base = m;
		iov.iov_len = len;
		memset(&r, 0, sizeof r);
		n = qb_ipcc_sendv_recv(j->k->c, &iov, 1, &r, sizeof r, 5000);
		if (n < 0) j->rc = (int)n;
		else if (n != sizeof r || r.hdr.id != ECHO_ID + 1 || r.got_size != len || r.sum != bytesum(m, len)) j->rc = 1;
		else j->rc = 0;
		free(m);
	}
	j->done = 1;
	return NULL;
}

static int run_job(struct job *j)
{
	pthread_t t;
	int to;
	j->done = 0;
	if (pthread_create(&t, NULL, ctl_thread, j) != 0) return -EAGAIN;
	to = hl_pump(&j->done);
	if (to < 0 && !j->done) {
		printf("TIMEOUT\n");
		exit(3);	/* a wedged server: the runner reports the case */
	}
	pthread_join(t, NULL);
	return j->rc;
}

/* ---- service life ----------------------------------------------------------------------------- */
static void teardown(void)
{
	int i;
	quiet = 1;
	for (i = 0; i < MAXPEER; i++) {
		peer_release(&peers[i], 1);
		if (ctls[i].c) { qb_ipcc_disconnect(ctls[i].c); ctls[i].c = NULL; }
	}
	if (svc) {
		hl_pump(NULL);
		qb_ipcs_destroy(svc);
		svc = NULL;
		hl_pump(NULL);
	}
	hl_cid_reset();
	accept_rc = 0;
	quiet = 0;
}

static int own_fds(void)
{
	int i, n = 0;
	for (i = 0; i < MAXPEER; i++) {
		if (peers[i].fd >= 0) n++;
		if (peers[i].dg >= 0) n++;
		if (ctls[i].c) n += ctls[i].fds;
	}
	return n;
}

int main(void)
{
	char *tok[VL_MAXTOK];
	int nt, i;

	hl_init();
	for (i = 0; i < MAXPEER; i++) { peers[i].fd = -1; peers[i].dg = -1; }

	while ((nt = vl_read(tok)) >= 0) {
		const char *op = tok[0];
		int P = (nt > 1) ? atoi(tok[1]) : 0;
		struct peer *p = (P >= 0 && P < MAXPEER) ? &peers[P] : NULL;

		if (!strcmp(op, "case")) {
			teardown();
			printf("case %s\n", nt > 1 ? tok[1] : "");
			continue;
		}
		if (!strcmp(op, "svc") && nt == 3) {
			long maxbuf = atol(tok[2]);
			teardown();
			svc_type = !strcmp(tok[1], "sock") ? QB_IPC_SOCKET : QB_IPC_SHM;
			snprintf(svc_name, sizeof svc_name, "hl%d_%d", (int)getpid(), ++svc_seq);
			svc = qb_ipcs_create(svc_name, 4, svc_type, &handlers);
			if (!svc) { printf("ENOMEM\n"); continue; }
			if (maxbuf > 0) qb_ipcs_enforce_buffer_size(svc, (uint32_t)maxbuf);
			qb_ipcs_poll_handlers_set(svc, &hl_poll_handlers);
			i = qb_ipcs_run(svc);
			if (i != 0) { printf("%s\n", vl_errname(i)); svc = NULL; continue; }
			hl_pump(NULL);
			base_fds = hl_count_fds();
			base_dirs = hl_count_shm_dirs();
			printf("ok\n");
			continue;
		}
		if (svc == NULL) { printf("bad-op\n"); continue; }

		if (!strcmp(op, "accept_rc") && nt == 2) {
			accept_rc = atoi(tok[1]);
			printf("ok\n");
		} else if (!strcmp(op, "hs_open") && p) {
			if (p->fd >= 0) peer_release(p, 1);
			i = hl_raw_connect(svc_name);
			if (i < 0) printf("%s\n", vl_errname(i));
			else { p->fd = i; printf("ok\n"); }
		} else if (!strcmp(op, "hs_send") && p && nt == 3) {
			size_t len;
			unsigned char *b = vl_unhex(tok[2], &len);
			ssize_t n;
			if (!b || p->fd < 0) { printf("bad-op\n"); free(b); continue; }
			n = send(p->fd, b, len, MSG_DONTWAIT | MSG_NOSIGNAL);
			if (n < 0) {
				if (errno == EPIPE || errno == ECONNRESET || errno == ENOTCONN) printf("closed\n");
				else printf("%s\n", vl_errname(errno));
			} else printf("sent %zd\n", n);
			free(b);
		} else if (!strcmp(op, "hs_shutwr") && p) {
			if (p->fd >= 0) shutdown(p->fd, SHUT_WR);
			printf("ok\n");
		} else if ((!strcmp(op, "hs_close") || !strcmp(op, "hs_die")) && p) {
			peer_release(p, op[3] == 'c');
			printf("ok\n");
		} else if (!strcmp(op, "pump")) {
			if (hl_pump(NULL) < 0) { printf("TIMEOUT\n"); exit(3); }
			printf("pumped\n");
		} else if (!strcmp(op, "hs_state") && p) {
			static struct qb_ipc_connection_response r;
			ssize_t n;
			if (p->fd < 0) { printf("bad-op\n"); continue; }
			n = recv(p->fd, &r, sizeof r, MSG_PEEK | MSG_DONTWAIT);
			if (n == 0) printf("closed\n");
			else if (n < 0 && (errno == EAGAIN || errno == EWOULDBLOCK)) printf("pending\n");
			else if (n < 0) printf("closed\n");
			else if ((size_t)n < sizeof r) printf("partial %zd\n", n);
			else {
				n = recv(p->fd, &r, sizeof r, MSG_DONTWAIT);
				p->resp = r;
				p->have_resp = (r.hdr.error == 0);
				printf("resp %s %u %s\n", r.hdr.error ? vl_errname(r.hdr.error) : "0", r.max_msg_size,
				       r.hdr.error ? "-" : r.connection_type == QB_IPC_SHM ? "shm" :
				       r.connection_type == QB_IPC_SOCKET ? "sock" : "?");
			}
		} else if (!strcmp(op, "attach") && p) {
			if (!p->have_resp || p->dg >= 0 || p->rb) { printf("bad-op\n"); continue; }
			p->resp.request[PATH_MAX - 1] = 0;
			p->resp.response[PATH_MAX - 1] = 0;
			if (p->resp.connection_type == QB_IPC_SHM) {
				p->rb = qb_rb_open(p->resp.request, p->resp.max_msg_size,
						   QB_RB_FLAG_SHARED_PROCESS, sizeof(int32_t));
				if (!p->rb) printf("%s\n", vl_errname(errno)); else printf("ok\n");
			} else {
				struct sockaddr_un a;
				int big = 8 * 1024 * 1024, fd, cf;
				fd = socket(PF_UNIX, SOCK_DGRAM, 0);
				if (fd < 0) { printf("%s\n", vl_errname(errno)); continue; }
				if (setsockopt(fd, SOL_SOCKET, SO_SNDBUFFORCE, &big, sizeof big) != 0)
					setsockopt(fd, SOL_SOCKET, SO_SNDBUF, &big, sizeof big);
				memset(&a, 0, sizeof a);
				a.sun_family = AF_UNIX;
				snprintf(a.sun_path + 1, sizeof(a.sun_path) - 1, "%s-request", p->resp.response);
				if (connect(fd, (struct sockaddr *)&a, sizeof a) < 0) {
					printf("%s\n", vl_errname(errno));
					close(fd);
					continue;
				}
				p->dg = fd;
				cf = open(p->resp.request, O_RDWR);
				if (cf >= 0) {
					void *m = mmap(NULL, 24, PROT_READ | PROT_WRITE, MAP_SHARED, cf, 0);
					if (m != MAP_FAILED) p->ctl = m;
					close(cf);
				}
				printf("ok\n");
			}
		} else if (!strcmp(op, "msg") && p && nt == 5) {
			int32_t id = (int32_t)atol(tok[2]);
			int32_t sz = (int32_t)atoll(tok[3]);
			size_t len = (size_t)atol(tok[4]), k;
			unsigned char *b = calloc(1, len + 16), h[16];
			memset(h, 0, sizeof h);
			memcpy(h, &id, 4);
			memcpy(h + 8, &sz, 4);
			for (k = 0; k < len; k++) b[k] = k < 16 ? h[k] : (unsigned char)(k * 7 + len);
			emit(p, b, len);
			free(b);
		} else if (!strcmp(op, "raw") && p && nt == 3) {
			size_t len;
			unsigned char *b = vl_unhex(tok[2], &len);
			if (!b) { printf("bad-op\n"); continue; }
			emit(p, b, len);
			free(b);
		} else if (!strcmp(op, "ctl_connect") && p && nt == 3) {
			struct job j = { .kind = 0, .k = &ctls[P], .arg = (size_t)atol(tok[2]) };
			if (ctls[P].c) { printf("bad-op\n"); continue; }
			i = run_job(&j);
			ctls[P].fds = (svc_type == QB_IPC_SHM) ? 1 : 3;
			if (i != 0) printf("%s\n", vl_errname(i)); else printf("ok\n");
		} else if (!strcmp(op, "ctl_echo") && p && nt == 3) {
			struct job j = { .kind = 1, .k = &ctls[P], .arg = (size_t)atol(tok[2]) };
			if (!ctls[P].c || j.arg < 16) { printf("bad-op\n"); continue; }
			i = run_job(&j);
			if (i == 0) printf("echo %zu\n", j.arg);
			else if (i > 0) printf("echo-bad\n");
			else printf("%s\n", vl_errname(i));
		} else if (!strcmp(op, "ctl_close") && p) {
			if (ctls[P].c) { qb_ipcc_disconnect(ctls[P].c); ctls[P].c = NULL; }
			if (hl_pump(NULL) < 0) { printf("TIMEOUT\n"); exit(3); }
			printf("ok\n");
		} else if (!strcmp(op, "residue")) {
			printf("fds %d dirs %d\n", hl_count_fds() - base_fds - own_fds(), hl_count_shm_dirs() - base_dirs);
		} else {
			printf("bad-op\n");
		}
	}
	teardown();
	hl_rm_rf_shm();
	return 0;
}
