/* ipcs_life.c -- C04 harness: the REAL libqb IPC server (ipcs.c, ipc_setup.c, ipc_shm.c,
 * ipc_socket.c on a real qb_loop) in this process under ASan, real clients (qb_ipcc_*) played
 * by this process (the blocking connect runs in a helper thread while the main thread runs the
 * server loop), and SCRIPT-DRIVEN service handlers: every callback invocation of kind K consumes
 * the next entry of K's script queue = a list of API calls to make from inside the callback
 * (and, for accept/closed, the value to return).  The application ("app") side keeps the rules
 * an application can keep from what it has been told: it touches a connection only before the
 * library announced `destroyed` for it or while it holds a reference of its own.
 *
 * One op per line, one result line per op; callbacks and the calls made by the app are extra lines:
 *   cb accept cN ret=R | cb created cN | cb msg cN | cb closed cN ret=R | cb destroyed cN rc=REFCOUNT
 *   do d|r|u|e cN      (disconnect / connection_ref / connection_unref / event_send performed)
 *   do i cA cB ...     (first_get/next_get walk, every returned connection unref'd again)
 *   do skip            (the scripted call is not one a correct application may make now)
 *
 *   svc shm|sock            create + run a service                                   -> ok
 *   script KIND ENTRY...    append entries to KIND's queue (accept created msg closed destroyed);
 *                           ENTRY = comma list of  d:T r:T u:T e:T i ret=N  (T = s(elf) | conn id), or -  -> ok
 *   connect K               client K connects (handshake served by the loop)         -> ok | E<NAME> | skip
 *   send K                  client K sends one request, loop runs until idle          -> ok | skip
 *   gone K                  client K goes away, loop runs until idle                  -> ok | skip
 *   disc N | ref N | unref N | ev N | iter     the same calls from outside any callback -> (do line) ok
 *   destroy                 qb_ipcs_destroy                                           -> ok | skip
 *   job                     run the oldest queued `closed` retry job                  -> ok | skip
 *   run                     run queued jobs until none is left                        -> ok
 *   half P | halfgone P     raw peer P connects and sends nothing / closes (pending handshake) -> ok | skip
 *   finish                  drop all app references, all clients go away, destroy, run -> finished
 *   sendn K N               client K queues N requests (1..12) BEFORE the loop runs (a pipelining client),
 *                           then the loop runs until idle                                 -> ok | skip
 *   rate slow|normal|fast   qb_ipcs_request_rate_limit                                   -> ok | skip
 *   fault add|mod|del N     fault injection in the application's poll handlers: the N-th call from now of
 *                           dispatch_add / dispatch_mod / dispatch_del returns an error (add, mod: without doing
 *                           anything; del: after removing the descriptor)                -> ok
 *                           a connect / half whose handshake socket could not be added answers `refused`
 */
#include "hl_loop.h"

#define MAXC 64			/* connection ids per case */
#define MAXK 16			/* clients */
#define MAXQ 256		/* script entries per kind */
#define MAXOPS 8
enum { K_ACCEPT, K_CREATED, K_MSG, K_CLOSED, K_DESTROYED, K_N };
static const char *kind_name[K_N] = { "accept", "created", "msg", "closed", "destroyed" };

struct sop { char op; int target; };	/* target 0 = self */
struct entry { int n; struct sop ops[MAXOPS]; int ret; };
static struct entry q[K_N][MAXQ];
static int q_head[K_N], q_tail[K_N];

struct conn {
	qb_ipcs_connection_t *ptr;
	int live;		/* pointer may be looked up (not yet destroyed) */
	int created, closed_seen, app_disc, destroyed, appref;
	int aborted;		/* disconnected by the app while still ACTIVE (inside created) */
};
static struct conn conns[MAXC + 1];
static int nconn;

struct client { qb_ipcc_connection_t *c; int cid; };
static struct client clients[MAXK];
static int halfs[MAXK];

static qb_ipcs_service_t *svc;
static int svc_destroyed;
static char svc_name[64];
static int svc_seq;
static int quiet;
static int cur_client = -1;
static int accept_ret;	/* what the last accept callback returned */	/* client whose handshake is being served */

/* ---- retry jobs: kept by the harness, run by the `job` / `run` ops ------------------------- */
struct jrec { qb_loop_job_dispatch_fn fn; void *data; };
static struct jrec jobs[1024];
static int job_head, job_tail;

static int32_t lf_job_add(enum qb_loop_priority p, void *data, qb_loop_job_dispatch_fn fn)
{
	if (job_tail >= 1024) return -ENOMEM;
	jobs[job_tail].fn = fn;
	jobs[job_tail].data = data;
	job_tail++;
	return 0;
}

/* ---- fault injection in the application's poll handlers ---------------------------------- */
enum { F_ADD, F_MOD, F_DEL, F_N };
static int fault_n[F_N];	/* n-th call from now fails; 0 = no fault armed */
static int fault_fired[F_N];	/* faults injected during the current op */

static int fault_hit(int k)
{
	if (fault_n[k] == 0) return 0;
	if (--fault_n[k] != 0) return 0;
	fault_fired[k]++;
	return 1;
}

static int32_t lf_dispatch_add(enum qb_loop_priority p, int32_t fd, int32_t events,
			       void *data, qb_ipcs_dispatch_fn_t fn)
{
	if (fault_hit(F_ADD)) return -ENOMEM;
	return hl_dispatch_add(p, fd, events, data, fn);
}

static int32_t lf_dispatch_mod(enum qb_loop_priority p, int32_t fd, int32_t events,
			       void *data, qb_ipcs_dispatch_fn_t fn)
{
	if (fault_hit(F_MOD)) return -ENOMEM;
	return hl_dispatch_mod(p, fd, events, data, fn);
}

static int32_t lf_dispatch_del(int32_t fd)
{
	int32_t rc = hl_dispatch_del(fd);
	if (fault_hit(F_DEL)) return -ENOENT;
	return rc;
}

static struct qb_ipcs_poll_handlers lf_poll_handlers = {
	.job_add = lf_job_add,
	.dispatch_add = lf_dispatch_add,
	.dispatch_mod = lf_dispatch_mod,
	.dispatch_del = lf_dispatch_del,
};

#define OUT(...) do { if (!quiet) printf(__VA_ARGS__); } while (0)

static int cid_of(qb_ipcs_connection_t *c)
{
	int i;
	for (i = nconn; i >= 1; i--) {
		if (conns[i].live && conns[i].ptr == c) return i;
	}
	return 0;
}

static int touchable(int id)
{
	return id >= 1 && id <= nconn && (!conns[id].destroyed || conns[id].appref > 0);
}

static void pump(void)
{
	if (hl_pump(NULL) < 0) { printf("TIMEOUT\n"); exit(3); }
}

/* one API call made by the application; `self` resolves target 0 */
static void do_op(char op, int target, int self)
{
	int id = target ? target : self;
	struct conn *k = (id >= 1 && id <= MAXC) ? &conns[id] : NULL;
	static char evbuf[64];

	switch (op) {
	case 'd':
		if (!touchable(id)) break;
		OUT("do d c%d\n", id);
		k->app_disc = 1;
		if (k->ptr->state == QB_IPCS_CONNECTION_ACTIVE) k->aborted = 1;
		qb_ipcs_disconnect(k->ptr);
		return;
	case 'r':
		if (!touchable(id)) break;
		OUT("do r c%d\n", id);
		k->appref++;
		qb_ipcs_connection_ref(k->ptr);
		return;
	case 'u':
		if (!k || id > nconn || k->appref <= 0) break;
		OUT("do u c%d\n", id);
		k->appref--;
		qb_ipcs_connection_unref(k->ptr);
		return;
	case 'e': {
		struct qb_ipc_response_header *h = (void *)evbuf;
		if (!touchable(id) || !k->created || k->closed_seen || k->app_disc) break;
		OUT("do e c%d\n", id);
		h->id = 200;
		h->size = sizeof evbuf;
		h->error = 0;
		(void)qb_ipcs_event_send(k->ptr, evbuf, sizeof evbuf);
		return;
	}
	case 'i': {
		qb_ipcs_connection_t *c, *next;
		int ids[MAXC + 1], n = 0, j;
		if (!svc || svc_destroyed) break;
		/* the documented walk: every returned connection carries a reference of ours */
		for (c = qb_ipcs_connection_first_get(svc); c; c = next) {
			next = qb_ipcs_connection_next_get(svc, c);
			if (n < MAXC) ids[n++] = cid_of(c);
			qb_ipcs_connection_unref(c);
		}
		if (!quiet) {
			printf("do i");
			for (j = 0; j < n; j++) printf(" c%d", ids[j]);
			printf("\n");
		}
		return;
	}
	default:
		break;
	}
	OUT("do skip\n");
}

static int run_script(int kind, int self, int *ret)
{
	struct entry e;
	int i;
	if (q_head[kind] >= q_tail[kind]) return 0;
	e = q[kind][q_head[kind]++];
	if (ret) *ret = e.ret;
	for (i = 0; i < e.n; i++) do_op(e.ops[i].op, e.ops[i].target, self);
	return 1;
}

static int peek_ret(int kind)
{
	return (q_head[kind] < q_tail[kind]) ? q[kind][q_head[kind]].ret : 0;
}

/* ---- server callbacks ------------------------------------------------------------------ */
static int32_t cb_accept(qb_ipcs_connection_t *c, uid_t uid, gid_t gid)
{
	int id, ret = 0;
	if (nconn >= MAXC) { printf("too-many-connections\n"); exit(4); }
	id = ++nconn;
	memset(&conns[id], 0, sizeof conns[id]);
	conns[id].ptr = c;
	conns[id].live = 1;
	if (cur_client >= 0) clients[cur_client].cid = id;
	OUT("cb accept c%d ret=%d\n", id, peek_ret(K_ACCEPT));
	run_script(K_ACCEPT, id, &ret);
	accept_ret = ret;
	return ret;
}

static void cb_created(qb_ipcs_connection_t *c)
{
	int id = cid_of(c);
	OUT("cb created c%d\n", id);
	conns[id].created = 1;
	run_script(K_CREATED, id, NULL);
}

static int32_t cb_msg(qb_ipcs_connection_t *c, void *data, size_t size)
{
	int id = cid_of(c);
	OUT("cb msg c%d\n", id);
	run_script(K_MSG, id, NULL);
	return 0;
}

static int32_t cb_closed(qb_ipcs_connection_t *c)
{
	int id = cid_of(c), ret = 0;
	OUT("cb closed c%d ret=%d\n", id, peek_ret(K_CLOSED));
	conns[id].closed_seen = 1;
	run_script(K_CLOSED, id, &ret);
	return ret;
}

static void cb_destroyed(qb_ipcs_connection_t *c)
{
	int id = cid_of(c);
	OUT("cb destroyed c%d rc=%d\n", id, c->refcount);
	conns[id].destroyed = 1;
	conns[id].live = 0;
	run_script(K_DESTROYED, id, NULL);
}

static struct qb_ipcs_service_handlers handlers = {
	.connection_accept = cb_accept,
	.connection_created = cb_created,
	.msg_process = cb_msg,
	.connection_closed = cb_closed,
	.connection_destroyed = cb_destroyed,
};

/* ---- clients ------------------------------------------------------------------------------ */
struct cjob { int k; int rc; volatile int done; };

static void *connect_thread(void *a)
{
	struct cjob *j = a;
	clients[j->k].c = qb_ipcc_connect(svc_name, 4096);
	j->rc = clients[j->k].c ? 0 : -errno;
	j->done = 1;
	return NULL;
}

static void client_gone(int k)
{
	if (clients[k].c) {
		qb_ipcc_disconnect(clients[k].c);
		clients[k].c = NULL;
	}
}

static int run_one_job(void)
{
	struct jrec j;
	if (job_head >= job_tail) return 0;
	j = jobs[job_head++];
	j.fn(j.data);
	return 1;
}

static void do_destroy(void)
{
	qb_ipcs_destroy(svc);
	svc_destroyed = 1;
}

static void finish(void)
{
	int i, guard = 0;
	for (i = 1; i <= nconn; i++) {
		while (conns[i].appref > 0) do_op('u', i, 0);
	}
	for (i = 0; i < MAXK; i++) {
		if (clients[i].c) { client_gone(i); pump(); }
		if (halfs[i] >= 0) { close(halfs[i]); halfs[i] = -1; pump(); }
	}
	if (svc && !svc_destroyed) do_destroy();
	while (run_one_job() && ++guard < 1000) ;
	if (svc) pump();
}

static void teardown(void)
{
	int k;
	quiet = 1;
	if (svc) finish();
	svc = NULL;
	svc_destroyed = 0;
	nconn = 0;
	job_head = job_tail = 0;
	for (k = 0; k < F_N; k++) fault_n[k] = fault_fired[k] = 0;
	for (k = 0; k < K_N; k++) q_head[k] = q_tail[k] = 0;
	for (k = 0; k < MAXK; k++) { clients[k].c = NULL; clients[k].cid = 0; halfs[k] = -1; }
	quiet = 0;
}

static int parse_entry(char *s, struct entry *e)
{
	char *p, *save = NULL;
	memset(e, 0, sizeof *e);
	if (!strcmp(s, "-")) return 0;
	for (p = strtok_r(s, ",", &save); p; p = strtok_r(NULL, ",", &save)) {
		if (!strncmp(p, "ret=", 4)) { e->ret = atoi(p + 4); continue; }
		if (e->n >= MAXOPS) return -1;
		if (!strcmp(p, "i")) { e->ops[e->n].op = 'i'; e->ops[e->n].target = 0; e->n++; continue; }
		if (strlen(p) < 3 || p[1] != ':' || !strchr("drue", p[0])) return -1;
		e->ops[e->n].op = p[0];
		e->ops[e->n].target = (p[2] == 's') ? 0 : atoi(p + 2);
		if (p[2] != 's' && (e->ops[e->n].target < 1 || e->ops[e->n].target > MAXC)) return -1;
		e->n++;
	}
	return 0;
}

int main(void)
{
	char *tok[VL_MAXTOK];
	int nt, i;

	hl_init();
	for (i = 0; i < MAXK; i++) halfs[i] = -1;

	while ((nt = vl_read(tok)) >= 0) {
		const char *op = tok[0];
		int A = (nt > 1) ? atoi(tok[1]) : -1;

		if (!strcmp(op, "case")) {
			teardown();
			printf("case %s\n", nt > 1 ? tok[1] : "");
			continue;
		}
		if (!strcmp(op, "svc") && nt == 2) {
			int type = !strcmp(tok[1], "sock") ? QB_IPC_SOCKET : QB_IPC_SHM;
			teardown();
			snprintf(svc_name, sizeof svc_name, "lf%d_%d", (int)getpid(), ++svc_seq);
			svc = qb_ipcs_create(svc_name, 4, type, &handlers);
			if (!svc) { printf("ENOMEM\n"); continue; }
			qb_ipcs_poll_handlers_set(svc, &lf_poll_handlers);
			i = qb_ipcs_run(svc);
			if (i != 0) { printf("%s\n", vl_errname(i)); svc = NULL; continue; }
			pump();
			printf("ok\n");
			continue;
		}
		if (!strcmp(op, "script") && nt >= 2) {
			int kind = -1, bad = 0;
			for (i = 0; i < K_N; i++) if (!strcmp(tok[1], kind_name[i])) kind = i;
			if (kind < 0) { printf("bad-op\n"); continue; }
			for (i = 2; i < nt; i++) {
				if (q_tail[kind] >= MAXQ || parse_entry(tok[i], &q[kind][q_tail[kind]]) < 0) { bad = 1; break; }
				q_tail[kind]++;
			}
			printf(bad ? "bad-op\n" : "ok\n");
			continue;
		}
		if (svc == NULL) { printf("bad-op\n"); continue; }
		for (i = 0; i < F_N; i++) fault_fired[i] = 0;

		if (!strcmp(op, "connect") && A >= 0 && A < MAXK) {
			struct cjob j = { .k = A };
			pthread_t t;
			if (svc_destroyed || clients[A].c) { printf("skip\n"); continue; }
			clients[A].cid = 0;
			cur_client = A;
			accept_ret = 0;
			if (pthread_create(&t, NULL, connect_thread, &j) != 0) { printf("EAGAIN\n"); continue; }
			if (hl_pump(&j.done) < 0 && !j.done) { printf("TIMEOUT\n"); exit(3); }
			pthread_join(t, NULL);
			pump();
			cur_client = -1;
			i = clients[A].cid;
			if (clients[A].c && (i == 0 || conns[i].aborted)) {
				/* the server dropped the connection inside created: whether the client's
				 * connect got through is a race; either way this client is not connected */
				client_gone(A);
				pump();
			}
			if (i == 0) printf("refused\n");	/* never reached the service: the handshake socket was dropped */
			else if (accept_ret != 0) printf("%s\n", vl_errname(accept_ret));
			else if (j.rc != 0 && !conns[i].aborted) printf("%s\n", vl_errname(j.rc));
			else printf("ok\n");
		} else if (!strcmp(op, "send") && A >= 0 && A < MAXK) {
			struct { struct qb_ipc_request_header hdr; char data[16]; } req;
			if (!clients[A].c) { printf("skip\n"); continue; }
			memset(&req, 0, sizeof req);
			req.hdr.id = 100;
			req.hdr.size = sizeof req;
			(void)qb_ipcc_send(clients[A].c, &req, sizeof req);
			pump();
			printf("ok\n");
		} else if (!strcmp(op, "gone") && A >= 0 && A < MAXK) {
			if (!clients[A].c) { printf("skip\n"); continue; }
			client_gone(A);
			pump();
			printf("ok\n");
		} else if (!strcmp(op, "disc") && nt == 2) {
			do_op('d', A, 0); printf("ok\n");
		} else if (!strcmp(op, "ref") && nt == 2) {
			do_op('r', A, 0); printf("ok\n");
		} else if (!strcmp(op, "unref") && nt == 2) {
			do_op('u', A, 0); printf("ok\n");
		} else if (!strcmp(op, "ev") && nt == 2) {
			do_op('e', A, 0); printf("ok\n");
		} else if (!strcmp(op, "iter")) {
			do_op('i', 0, 0); printf("ok\n");
		} else if (!strcmp(op, "destroy")) {
			if (svc_destroyed) { printf("skip\n"); continue; }
			do_destroy();
			pump();
			printf("ok\n");
		} else if (!strcmp(op, "job")) {
			printf(run_one_job() ? "ok\n" : "skip\n");
		} else if (!strcmp(op, "run")) {
			int guard = 0;
			while (run_one_job() && ++guard < 1000) ;
			printf("ok\n");
		} else if (!strcmp(op, "half") && A >= 0 && A < MAXK) {
			if (svc_destroyed || halfs[A] >= 0) { printf("skip\n"); continue; }
			i = hl_raw_connect(svc_name);
			if (i < 0) { printf("%s\n", vl_errname(i)); continue; }
			halfs[A] = i;
			pump();
			if (fault_fired[F_ADD]) {	/* the server dropped the socket: no handshake is pending */
				close(halfs[A]);
				halfs[A] = -1;
				pump();
				printf("refused\n");
				continue;
			}
			printf("ok\n");
		} else if (!strcmp(op, "halfgone") && A >= 0 && A < MAXK) {
			if (halfs[A] < 0) { printf("skip\n"); continue; }
			close(halfs[A]);
			halfs[A] = -1;
			pump();
			printf("ok\n");
		} else if (!strcmp(op, "sendn") && nt == 3 && A >= 0 && A < MAXK && atoi(tok[2]) >= 1 && atoi(tok[2]) <= 12) {
			struct { struct qb_ipc_request_header hdr; char data[16]; } req;
			int n = atoi(tok[2]);
			if (!clients[A].c) { printf("skip\n"); continue; }
			for (i = 0; i < n; i++) {
				memset(&req, 0, sizeof req);
				req.hdr.id = 100;
				req.hdr.size = sizeof req;
				(void)qb_ipcc_send(clients[A].c, &req, sizeof req);
			}
			pump();
			printf("ok\n");
		} else if (!strcmp(op, "rate") && nt == 2 &&
			   (!strcmp(tok[1], "slow") || !strcmp(tok[1], "normal") || !strcmp(tok[1], "fast"))) {
			if (svc_destroyed) { printf("skip\n"); continue; }
			qb_ipcs_request_rate_limit(svc, tok[1][0] == 's' ? QB_IPCS_RATE_SLOW :
						   tok[1][0] == 'f' ? QB_IPCS_RATE_FAST : QB_IPCS_RATE_NORMAL);
			pump();
			printf("ok\n");
		} else if (!strcmp(op, "fault") && nt == 3 && atoi(tok[2]) >= 1 && atoi(tok[2]) <= 9 &&
			   (!strcmp(tok[1], "add") || !strcmp(tok[1], "mod") || !strcmp(tok[1], "del"))) {
			fault_n[tok[1][0] == 'a' ? F_ADD : tok[1][0] == 'm' ? F_MOD : F_DEL] = atoi(tok[2]);
			printf("ok\n");
		} else if (!strcmp(op, "finish")) {
			finish();
			printf("finished\n");
		} else {
			printf("bad-op\n");
		}
	}
	teardown();
	hl_rm_rf_shm();
	return 0;
}
