/* ipc_adm.c -- C05 harness (admission): the REAL libqb IPC server (ipc_setup.c, ipcs.c, ipc_shm.c,
 * ipc_socket.c, ringbuffer.c, unix.c on a real qb_loop) in this process under ASan; every client is a
 * forked process that drops to generated effective ids (setgroups/setegid/seteuid; the harness runs
 * as root) and uses the real qb_ipcc_* API.  The accept callback follows the script of the client
 * line.  The file-system calls of the SERVER process on /dev/shm/qb-<mypid>-* are interposed
 * (definitions below override libc for the statically linked libqb objects, real function through
 * dlsym(RTLD_NEXT)); each call is logged together with an lstat() snapshot of the connection's
 * directory and of every entry in it taken right after the call ("at any moment": the ledger only
 * changes at calls).  A call can be made to fail (fail=K:ENAME: the K-th logged call of that
 * connection returns the error without being executed).
 *
 *   srv T UMASK                                   -> srv ok        (T = shm|sock; octal umask of the server)
 *   par N                                         -> par N         (the next N cli lines run concurrently)
 *   cli I uid=U gid=G ids=res|eff rc=R auth=U2:G2:MODE|- fail=K:ENAME|- msgs=M
 *      (ids=res: the child sets real, effective and saved ids; ids=eff: only the effective ones)
 *      -> block:  cli I
 *                 ids real=U:G eff=U:G            ids the child reports after the drop
 *                 fs CALL PATH [ARGS] -> RES | SNAP      server-side call + ledger of the connection after it
 *                 accept U G / authset U G MODE   arguments of connection_accept / what the script did in it
 *                 connect R                       0 or -errno of the client's qb_ipcc_connect
 *                 snap SNAP                       ledger after the client finished connecting
 *                 msgs sent=K cbs=N               requests answered for the client / msg_process runs for its pid
 *                 fs ...                          (disconnect)
 *                 residue SNAP                    ledger after the connection is gone ("-" = nothing left)
 *   further keys of a cli line (all optional):
 *     peer=qb|raw   raw: the child is NOT libqb's client: socket(AF_UNIX, SOCK_STREAM) + connect to the service's
 *                   abstract socket, no SO_PASSCRED of its own, writes a struct qb_ipc_connection_request in
 *                   frag=N (1-3) pieces and reads the response header (connect = hdr.error)
 *     hs=pre|win|post   when the raw peer writes its handshake: before the server's accept() (the group is not
 *                   started before it has written), inside the interposed accept() after the real accept returned
 *                   (accept -> per-connection setsockopt window), or right after the server's
 *                   setsockopt(SO_PASSCRED, 1) on the accepted socket
 *     plant=K:NAME:f666|f644|link   hostile peer: a second process with the client's ids (setres[ug]id, umask 0)
 *                   plants, right after the K-th logged call of the connection, a regular file (O_CREAT|O_EXCL, that
 *                   mode) or a symlink to a root-owned 0600 victim file outside the directory under the predictable
 *                   name NAME (request-header ... event-data, control):
 *                 plant NAME KIND -> ok|ENAME | SNAP      (after the fs line of call K)
 *                 planted same|changed|gone|none          inode of the planted object at the end vs when planted
 *                 victim MODE:UID:GID:SIZE -> MODE:UID:GID:SIZE   the victim file before / after the connection
 *   SNAP = "-" | NAME=TMODE:UID:GID,...  ("." = the directory; T = d|f|s|l|o; names without the
 *   qb- prefix and the service name).
 */
#include "hl_loop.h"
#include <dlfcn.h>
#include <stdarg.h>
#include <grp.h>
#include <sys/wait.h>

#define MAXCLI 16
#define MAXEV 256
#define MAXMSG 8192
#define REQ_ID 100

struct cli {
	int used, idx;
	pid_t pid;
	int uid, gid, rc, has_auth, auid, agid, amode;
	int fail_at, fail_errno, msgs;
	int rfd, cfd;
	char dir[256];
	int have_dir;
	int ncalls;
	char *ev[MAXEV];
	int nev;
	int got_real, real_uid, real_gid, eff_uid, eff_gid, eff_only;
	int got_connect, connect_res;
	int got_sent, sent;
	int bye;
	int established, destroyed;
	int msg_cbs;
	char lbuf[256];
	int llen;
	/* raw peer */
	int raw, hs, frags, ackfd, sfd, go_sent;
	/* hostile peer planting an object */
	int plant_at, plant_kind, plant_done, plant_ok;
	char plant_name[64], plant_path[600], victim[128], victim_before[64];
	unsigned long plant_ino;
	pid_t planter;
	int pl_cmd, pl_ack;
};

static struct cli clis[MAXCLI];
static struct cli *adm_cur;
static int adm_child;
static qb_ipcs_service_t *svc;
static char svc_name[64];
static int svc_seq;
static char shm_pfx[64];
static volatile int phase_done;
static int phase;		/* 1 connect, 2 sent, 3 bye */
#define MAXFD_TRACK 1024
static char *fdpath[MAXFD_TRACK];

#define REAL(ret, name, ...) \
	static ret (*real_##name)(__VA_ARGS__) = NULL; \
	if (!real_##name) real_##name = (ret (*)(__VA_ARGS__)) dlsym(RTLD_NEXT, #name)

static const char *ename(int e)
{
	static char buf[8][32];
	static int k;
	char *b = buf[k++ & 7];
	snprintf(b, 32, "%s", vl_errname(-e));
	return b;
}

/* ---- canonical names and snapshots ----------------------------------------------------- */
static void canon_entry(const char *name, char *out, size_t n)
{
	char tmp[300], *p;
	char infix[80];
	snprintf(tmp, sizeof tmp, "%s", strncmp(name, "qb-", 3) == 0 ? name + 3 : name);
	snprintf(infix, sizeof infix, "-%s", svc_name);
	p = strstr(tmp, infix);
	if (p) memmove(p, p + strlen(infix), strlen(p + strlen(infix)) + 1);
	snprintf(out, n, "%s", tmp);
}

static void canon_path(struct cli *cl, const char *path, char *out, size_t n)
{
	size_t dl = cl && cl->have_dir ? strlen(cl->dir) : 0;
	if (strcmp(path, "/dev/shm") == 0) {
		snprintf(out, n, "..");
	} else if (dl && strcmp(path, cl->dir) == 0) {
		snprintf(out, n, ".");
	} else if (dl && strncmp(path, cl->dir, dl) == 0 && path[dl] == '/') {
		canon_entry(path + dl + 1, out, n);
	} else if (strlen(path) > 6 && strcmp(path + strlen(path) - 6, "XXXXXX") == 0) {
		snprintf(out, n, ".");
	} else {
		snprintf(out, n, "?%s", path);
	}
}

static char tchar(mode_t m)
{
	return S_ISDIR(m) ? 'd' : S_ISREG(m) ? 'f' : S_ISSOCK(m) ? 's' : S_ISLNK(m) ? 'l' : 'o';
}

static int cmpstr(const void *a, const void *b)
{
	return strcmp(*(char *const *)a, *(char *const *)b);
}

static void snapshot(struct cli *cl, char *out, size_t n)
{
	struct stat st;
	char *ents[64];
	int ne = 0, i;
	size_t o = 0;
	DIR *d;
	struct dirent *e;
	out[0] = 0;
	if (!cl->have_dir || lstat(cl->dir, &st) != 0) {
		snprintf(out, n, "-");
		return;
	}
	o += snprintf(out + o, n - o, ".=%c%04o:%d:%d", tchar(st.st_mode), (unsigned)(st.st_mode & 07777),
		      (int)st.st_uid, (int)st.st_gid);
	d = opendir(cl->dir);
	if (d) {
		while ((e = readdir(d)) != NULL && ne < 64) {
			char p[600], cn[300], line[400];
			if (strcmp(e->d_name, ".") == 0 || strcmp(e->d_name, "..") == 0) continue;
			snprintf(p, sizeof p, "%s/%s", cl->dir, e->d_name);
			if (lstat(p, &st) != 0) continue;
			canon_entry(e->d_name, cn, sizeof cn);
			snprintf(line, sizeof line, "%s=%c%04o:%d:%d", cn, tchar(st.st_mode),
				 (unsigned)(st.st_mode & 07777), (int)st.st_uid, (int)st.st_gid);
			ents[ne++] = strdup(line);
		}
		closedir(d);
	}
	qsort(ents, ne, sizeof ents[0], cmpstr);
	for (i = 0; i < ne; i++) {
		if (o < n) o += snprintf(out + o, n - o, ",%s", ents[i]);
		free(ents[i]);
	}
}

static void ev_add(struct cli *cl, const char *fmt, ...)
{
	char buf[2048];
	va_list ap;
	va_start(ap, fmt);
	vsnprintf(buf, sizeof buf, fmt, ap);
	va_end(ap);
	if (cl->nev < MAXEV) cl->ev[cl->nev++] = strdup(buf);
}

static struct cli *cli_by_pid(pid_t pid)
{
	int i;
	for (i = 0; i < MAXCLI; i++) {
		if (clis[i].used && clis[i].pid == pid) return &clis[i];
	}
	return NULL;
}

static struct cli *cli_by_sfd(int fd)
{
	int i;
	for (i = 0; i < MAXCLI; i++) {
		if (clis[i].used && clis[i].sfd == fd && fd >= 0) return &clis[i];
	}
	return NULL;
}

/* connection a path belongs to: /dev/shm/qb-<mypid>-<clientpid>-<fd>-...; "/dev/shm" itself goes
 * to the connection that made the previous call */
static struct cli *cli_of_path(const char *p)
{
	size_t n = strlen(shm_pfx);
	if (adm_child || !p) return NULL;
	if (strcmp(p, "/dev/shm") == 0) return adm_cur;
	if (strncmp(p, shm_pfx, n) == 0) {
		struct cli *cl = cli_by_pid((pid_t)atoi(p + n));
		if (!cl) {
			/* the library did not learn the peer's pid: fall back to the socket (qb-<spid>-<cpid>-<fd>-) */
			const char *q = strchr(p + n, '-');
			if (q) cl = cli_by_sfd(atoi(q + 1));
		}
		if (cl) adm_cur = cl;
		return cl;
	}
	return NULL;
}

/* 1: the call is to fail now (errno set) */
static int inject(struct cli *cl)
{
	cl->ncalls++;
	if (cl->fail_at > 0 && cl->ncalls == cl->fail_at) {
		errno = cl->fail_errno;
		return 1;
	}
	return 0;
}

static const char *plant_kinds[] = { "-", "f666", "f644", "link" };

static void snapshot(struct cli *cl, char *out, size_t n);

/* the hostile peer acts now: tell the planter process the directory, wait until it has tried */
static void do_plant(struct cli *cl)
{
	char msg[400], rep[64], snap[1400];
	int n = 0, e = ENOENT;
	cl->plant_done = 1;
	if (cl->have_dir && cl->planter > 0) {
		char b;
		snprintf(msg, sizeof msg, "P %s\n", cl->dir);
		if (write(cl->pl_cmd, msg, strlen(msg)) < 0) { /* planter gone */ }
		while (n < (int)sizeof rep - 1 && read(cl->pl_ack, &b, 1) == 1 && b != '\n') rep[n++] = b;
		rep[n] = 0;
		if (sscanf(rep, "ok %lu", &cl->plant_ino) == 1) {
			cl->plant_ok = 1;
			e = 0;
		} else if (sscanf(rep, "E %d", &e) != 1) {
			e = EIO;
		}
	}
	snapshot(cl, snap, sizeof snap);
	ev_add(cl, "plant %s %s -> %s | %s", cl->plant_name, plant_kinds[cl->plant_kind], e ? ename(e) : "ok", snap);
}

static void fs_log(struct cli *cl, int res_errno, const char *fmt, ...)
{
	char call[700], snap[1400];
	va_list ap;
	int saved = errno;
	va_start(ap, fmt);
	vsnprintf(call, sizeof call, fmt, ap);
	va_end(ap);
	snapshot(cl, snap, sizeof snap);
	ev_add(cl, "fs %s -> %s | %s", call, res_errno ? ename(res_errno) : "ok", snap);
	if (cl->plant_at > 0 && !cl->plant_done && cl->ncalls == cl->plant_at) do_plant(cl);
	errno = saved;
}

static void fd_remember(int fd, const char *p)
{
	if (fd >= 0 && fd < MAXFD_TRACK) {
		free(fdpath[fd]);
		fdpath[fd] = p ? strdup(p) : NULL;
	}
}

/* ---- interposed calls ------------------------------------------------------------------- */
char *mkdtemp(char *t)
{
	char *r;
	struct cli *cl = cli_of_path(t);
	REAL(char *, mkdtemp, char *);
	if (!cl) return real_mkdtemp(t);
	if (inject(cl)) {
		fs_log(cl, errno, "mkdtemp .");
		return NULL;
	}
	r = real_mkdtemp(t);
	if (r) {
		snprintf(cl->dir, sizeof cl->dir, "%s", r);
		cl->have_dir = 1;
	}
	fs_log(cl, r ? 0 : errno, "mkdtemp .");
	return r;
}

int mkdir(const char *p, mode_t m)
{
	int r;
	char cp[300];
	struct cli *cl = cli_of_path(p);
	REAL(int, mkdir, const char *, mode_t);
	if (!cl) return real_mkdir(p, m);
	canon_path(cl, p, cp, sizeof cp);
	if (inject(cl)) { fs_log(cl, errno, "mkdir %s %04o", cp, (unsigned)m); return -1; }
	r = real_mkdir(p, m);
	fs_log(cl, r ? errno : 0, "mkdir %s %04o", cp, (unsigned)m);
	return r;
}

int chmod(const char *p, mode_t m)
{
	int r;
	char cp[300];
	struct cli *cl = cli_of_path(p);
	REAL(int, chmod, const char *, mode_t);
	if (!cl) return real_chmod(p, m);
	canon_path(cl, p, cp, sizeof cp);
	if (inject(cl)) { fs_log(cl, errno, "chmod %s %04o", cp, (unsigned)m); return -1; }
	r = real_chmod(p, m);
	fs_log(cl, r ? errno : 0, "chmod %s %04o", cp, (unsigned)m);
	return r;
}

int chown(const char *p, uid_t u, gid_t g)
{
	int r;
	char cp[300];
	struct cli *cl = cli_of_path(p);
	REAL(int, chown, const char *, uid_t, gid_t);
	if (!cl) return real_chown(p, u, g);
	canon_path(cl, p, cp, sizeof cp);
	if (inject(cl)) { fs_log(cl, errno, "chown %s %d %d", cp, (int)u, (int)g); return -1; }
	r = real_chown(p, u, g);
	fs_log(cl, r ? errno : 0, "chown %s %d %d", cp, (int)u, (int)g);
	return r;
}

int lchown(const char *p, uid_t u, gid_t g)
{
	int r;
	char cp[300];
	struct cli *cl = cli_of_path(p);
	REAL(int, lchown, const char *, uid_t, gid_t);
	if (!cl) return real_lchown(p, u, g);
	canon_path(cl, p, cp, sizeof cp);
	r = real_lchown(p, u, g);
	fs_log(cl, r ? errno : 0, "lchown %s %d %d", cp, (int)u, (int)g);
	return r;
}

int open(const char *p, int fl, ...)
{
	va_list ap;
	int mode, r;
	char cp[300], what[32];
	struct cli *cl = cli_of_path(p);
	REAL(int, open, const char *, int, ...);
	va_start(ap, fl);
	mode = va_arg(ap, int);
	va_end(ap);
	if (!cl) return real_open(p, fl, mode);
	canon_path(cl, p, cp, sizeof cp);
	if (fl & O_CREAT) snprintf(what, sizeof what, "creat%s %04o", (fl & O_EXCL) ? "" : "-noexcl", (unsigned)mode);
	else if (fl & O_DIRECTORY) snprintf(what, sizeof what, "dir");
	else snprintf(what, sizeof what, "plain");
	if (inject(cl)) { fs_log(cl, errno, "open %s %s", cp, what); return -1; }
	r = real_open(p, fl, mode);
	if (r >= 0) fd_remember(r, p);
	fs_log(cl, r < 0 ? errno : 0, "open %s %s", cp, what);
	return r;
}

int openat(int d, const char *p, int fl, ...)
{
	va_list ap;
	int mode, r;
	char full[700], cp[300];
	struct cli *cl = NULL;
	REAL(int, openat, int, const char *, int, ...);
	va_start(ap, fl);
	mode = va_arg(ap, int);
	va_end(ap);
	if (!adm_child && d >= 0 && d < MAXFD_TRACK && fdpath[d] && p[0] != '/') {
		snprintf(full, sizeof full, "%s/%s", fdpath[d], p);
		cl = cli_of_path(full);
	}
	if (!cl) return real_openat(d, p, fl, mode);
	canon_path(cl, full, cp, sizeof cp);
	if (inject(cl)) { fs_log(cl, errno, "openat %s %s", cp, (fl & O_CREAT) ? "creat" : "plain"); return -1; }
	r = real_openat(d, p, fl, mode);
	if (r >= 0) fd_remember(r, full);
	fs_log(cl, r < 0 ? errno : 0, "openat %s %s", cp, (fl & O_CREAT) ? "creat" : "plain");
	return r;
}

int close(int fd)
{
	REAL(int, close, int);
	if (!adm_child) fd_remember(fd, NULL);
	return real_close(fd);
}

static struct cli *cli_of_fd(int fd, char *cp, size_t n)
{
	struct cli *cl;
	if (adm_child || fd < 0 || fd >= MAXFD_TRACK || !fdpath[fd]) return NULL;
	cl = cli_of_path(fdpath[fd]);
	if (cl) canon_path(cl, fdpath[fd], cp, n);
	return cl;
}

int ftruncate(int fd, off_t len)
{
	int r;
	char cp[300];
	struct cli *cl = cli_of_fd(fd, cp, sizeof cp);
	REAL(int, ftruncate, int, off_t);
	if (!cl) return real_ftruncate(fd, len);
	if (inject(cl)) { fs_log(cl, errno, "ftruncate %s", cp); return -1; }
	r = real_ftruncate(fd, len);
	fs_log(cl, r ? errno : 0, "ftruncate %s", cp);
	return r;
}

int posix_fallocate(int fd, off_t o, off_t len)
{
	int r;
	char cp[300];
	struct cli *cl = cli_of_fd(fd, cp, sizeof cp);
	REAL(int, posix_fallocate, int, off_t, off_t);
	if (!cl) return real_posix_fallocate(fd, o, len);
	if (inject(cl)) { r = errno; fs_log(cl, r, "fallocate %s", cp); return r; }
	r = real_posix_fallocate(fd, o, len);
	fs_log(cl, r, "fallocate %s", cp);
	return r;
}

int fchmod(int fd, mode_t m)
{
	int r;
	char cp[300];
	struct cli *cl = cli_of_fd(fd, cp, sizeof cp);
	REAL(int, fchmod, int, mode_t);
	if (!cl) return real_fchmod(fd, m);
	if (inject(cl)) { fs_log(cl, errno, "chmod %s %04o", cp, (unsigned)m); return -1; }
	r = real_fchmod(fd, m);
	fs_log(cl, r ? errno : 0, "chmod %s %04o", cp, (unsigned)m);
	return r;
}

int fchown(int fd, uid_t u, gid_t g)
{
	int r;
	char cp[300];
	struct cli *cl = cli_of_fd(fd, cp, sizeof cp);
	REAL(int, fchown, int, uid_t, gid_t);
	if (!cl) return real_fchown(fd, u, g);
	if (inject(cl)) { fs_log(cl, errno, "chown %s %d %d", cp, (int)u, (int)g); return -1; }
	r = real_fchown(fd, u, g);
	fs_log(cl, r ? errno : 0, "chown %s %d %d", cp, (int)u, (int)g);
	return r;
}

int unlink(const char *p)
{
	int r;
	char cp[300];
	struct cli *cl = cli_of_path(p);
	REAL(int, unlink, const char *);
	if (!cl) return real_unlink(p);
	canon_path(cl, p, cp, sizeof cp);
	if (inject(cl)) { fs_log(cl, errno, "unlink %s", cp); return -1; }
	r = real_unlink(p);
	fs_log(cl, r ? errno : 0, "unlink %s", cp);
	return r;
}

int unlinkat(int d, const char *p, int fl)
{
	int r;
	char full[700], cp[300];
	struct cli *cl = NULL;
	REAL(int, unlinkat, int, const char *, int);
	if (!adm_child && d >= 0 && d < MAXFD_TRACK && fdpath[d] && p[0] != '/') {
		snprintf(full, sizeof full, "%s/%s", fdpath[d], p);
		cl = cli_of_path(full);
	}
	if (!cl) return real_unlinkat(d, p, fl);
	canon_path(cl, full, cp, sizeof cp);
	if (inject(cl)) { fs_log(cl, errno, "unlink %s", cp); return -1; }
	r = real_unlinkat(d, p, fl);
	fs_log(cl, r ? errno : 0, "unlink %s", cp);
	return r;
}

int rmdir(const char *p)
{
	int r;
	char cp[300];
	struct cli *cl = cli_of_path(p);
	REAL(int, rmdir, const char *);
	if (!cl) return real_rmdir(p);
	canon_path(cl, p, cp, sizeof cp);
	if (strcmp(p, "/dev/shm") == 0) {
		/* never executed: the library asks to remove the parent of all connections */
		cl->ncalls++;
		errno = EBUSY;
		fs_log(cl, EBUSY, "rmdir ..");
		return -1;
	}
	if (inject(cl)) { fs_log(cl, errno, "rmdir %s", cp); return -1; }
	r = real_rmdir(p);
	fs_log(cl, r ? errno : 0, "rmdir %s", cp);
	return r;
}

int rename(const char *a, const char *b)
{
	struct cli *cl = cli_of_path(a);
	REAL(int, rename, const char *, const char *);
	int r = real_rename(a, b);
	if (cl) fs_log(cl, r ? errno : 0, "rename ?%s ?%s", a, b);
	return r;
}

/* accept(): remember which client the new socket belongs to (SO_PEERCRED: the connect()-time identity, not
 * what the library uses); a raw peer with hs=win writes its handshake NOW, i.e. after the kernel's accept
 * and before the library has touched the new socket */
int accept(int fd, struct sockaddr *a, socklen_t *l)
{
	int r;
	REAL(int, accept, int, struct sockaddr *, socklen_t *);
	r = real_accept(fd, a, l);
	if (r >= 0 && !adm_child) {
		struct ucred uc;
		socklen_t ul = sizeof uc;
		int saved = errno;
		if (getsockopt(r, SOL_SOCKET, SO_PEERCRED, &uc, &ul) == 0) {
			struct cli *cl = cli_by_pid(uc.pid);
			int i;
			for (i = 0; i < MAXCLI; i++) if (clis[i].sfd == r) clis[i].sfd = -1;
			if (cl) {
				cl->sfd = r;
				if (cl->raw && cl->hs == 1 && !cl->go_sent) {
					char b;
					cl->go_sent = 1;
					if (write(cl->cfd, "g", 1) == 1 && read(cl->ackfd, &b, 1) < 0) { /* child gone */ }
				}
			}
		}
		errno = saved;
	}
	return r;
}

int setsockopt(int fd, int level, int opt, const void *v, socklen_t l)
{
	int r;
	REAL(int, setsockopt, int, int, int, const void *, socklen_t);
	r = real_setsockopt(fd, level, opt, v, l);
	if (!adm_child && level == SOL_SOCKET && opt == SO_PASSCRED && v && l >= sizeof(int) && *(const int *)v == 1) {
		struct cli *cl = cli_by_sfd(fd);
		if (cl && cl->raw && cl->hs == 2 && !cl->go_sent) {
			int saved = errno;
			cl->go_sent = 1;
			if (write(cl->cfd, "g", 1) < 0) { /* child gone */ }
			errno = saved;
		}
	}
	return r;
}

static struct cli *cli_of_conn(qb_ipcs_connection_t *c)
{
	struct cli *cl = cli_by_pid(c->pid);
	return cl ? cl : cli_by_sfd(c->setup.u.us.sock);
}

/* ---- server callbacks ------------------------------------------------------------------- */
struct adm_req { struct qb_ipc_request_header hdr; uint32_t n; };
struct adm_resp { struct qb_ipc_response_header hdr; uint32_t n; };

static int32_t cb_accept(qb_ipcs_connection_t *c, uid_t uid, gid_t gid)
{
	struct cli *cl = cli_of_conn(c);
	if (!cl) return -ESRCH;
	adm_cur = cl;
	ev_add(cl, "accept %d %d", (int)uid, (int)gid);
	if (cl->has_auth) {
		qb_ipcs_connection_auth_set(c, cl->auid, cl->agid, cl->amode);
		ev_add(cl, "authset %d %d %04o", cl->auid, cl->agid, (unsigned)cl->amode);
	}
	return cl->rc;
}

static void cb_created(qb_ipcs_connection_t *c)
{
	struct cli *cl = cli_of_conn(c);
	if (cl) cl->established++;
}

static int32_t cb_msg(qb_ipcs_connection_t *c, void *data, size_t size)
{
	struct cli *cl = cli_of_conn(c);
	struct adm_req *rq = data;
	struct adm_resp rs;
	if (cl) cl->msg_cbs++;
	memset(&rs, 0, sizeof rs);
	rs.hdr.id = REQ_ID + 1;
	rs.hdr.size = sizeof rs;
	rs.hdr.error = 0;
	rs.n = size >= sizeof *rq ? rq->n : 0;
	qb_ipcs_response_send(c, &rs, sizeof rs);
	return 0;
}

static int32_t cb_closed(qb_ipcs_connection_t *c)
{
	return 0;
}

static void check_phase(void);

static void cb_destroyed(qb_ipcs_connection_t *c)
{
	struct cli *cl = cli_of_conn(c);
	if (cl) {
		cl->destroyed++;
		adm_cur = cl;
	}
}

static struct qb_ipcs_service_handlers handlers = {
	.connection_accept = cb_accept,
	.connection_created = cb_created,
	.msg_process = cb_msg,
	.connection_closed = cb_closed,
	.connection_destroyed = cb_destroyed,
};

/* ---- the forked client -------------------------------------------------------------------- */
/* a peer that is not libqb's client: plain AF_UNIX stream socket, no SO_PASSCRED of its own, the
 * handshake written by hand (in cl->frags pieces) at the generated moment */
static void raw_child(struct cli *cl, int cmd_fd, int rep_fd, int ack_fd)
{
	struct sockaddr_un addr;
	struct qb_ipc_connection_request req;
	struct qb_ipc_response_header rh;
	char b, sink[4096];
	size_t off = 0, got = 0;
	int s, k, res = -999;
	s = socket(AF_UNIX, SOCK_STREAM, 0);
	memset(&addr, 0, sizeof addr);
	addr.sun_family = AF_UNIX;
	snprintf(addr.sun_path + 1, sizeof(addr.sun_path) - 1, "%s", svc_name);
	if (s < 0 || connect(s, (struct sockaddr *)&addr, sizeof addr) != 0) {
		res = -errno;
		if (write(ack_fd, "w", 1) < 0) { }
		goto report;
	}
	if (cl->hs != 0 && read(cmd_fd, &b, 1) != 1) _exit(4);	/* 'g': the generated moment has come */
	memset(&req, 0, sizeof req);
	req.hdr.id = QB_IPC_MSG_AUTHENTICATE;
	req.hdr.size = sizeof req;
	req.max_msg_size = MAXMSG;
	for (k = 0; k < cl->frags; k++) {
		size_t end = (k == cl->frags - 1) ? sizeof req : (sizeof req * (k + 1)) / cl->frags;
		while (off < end) {
			ssize_t w = write(s, (char *)&req + off, end - off);
			if (w <= 0) break;
			off += (size_t)w;
		}
	}
	if (write(ack_fd, "w", 1) < 0) { }
	while (got < sizeof rh) {
		struct pollfd pfd = { .fd = s, .events = POLLIN };
		ssize_t r;
		if (poll(&pfd, 1, 8000) <= 0) break;
		r = read(s, (char *)&rh + got, sizeof rh - got);
		if (r <= 0) break;
		got += (size_t)r;
	}
	if (got == sizeof rh) {
		res = rh.error;
		/* the rest of struct qb_ipc_connection_response (ring names) */
		got = rh.size > (int)sizeof rh ? (size_t)rh.size - sizeof rh : 0;
		while (got > 0) {
			struct pollfd pfd = { .fd = s, .events = POLLIN };
			ssize_t r;
			if (poll(&pfd, 1, 2000) <= 0) break;
			r = read(s, sink, got < sizeof sink ? got : sizeof sink);
			if (r <= 0) break;
			got -= (size_t)r;
		}
	}
report:
	dprintf(rep_fd, "connect %d\n", res);
	if (read(cmd_fd, &b, 1) != 1) _exit(4);
	dprintf(rep_fd, "sent 0\n");
	if (read(cmd_fd, &b, 1) != 1) _exit(4);
	if (s >= 0) close(s);
	dprintf(rep_fd, "bye\n");
	_exit(0);
}

/* the hostile peer's second process: same ids as the client, plants on request */
static void planter_main(struct cli *cl, int cmd_fd, int ack_fd)
{
	char line[600];
	adm_child = 1;
	setgroups(0, NULL);
	if (setresgid(cl->gid, cl->gid, cl->gid) != 0 || setresuid(cl->uid, cl->uid, cl->uid) != 0) _exit(3);
	umask(0);
	for (;;) {
		int n = 0, r = -1;
		char b, path[800], ring[32], *dash;
		struct stat st;
		while (n < (int)sizeof line - 1 && read(cmd_fd, &b, 1) == 1 && b != '\n') line[n++] = b;
		line[n] = 0;
		if (line[0] != 'P') _exit(0);
		snprintf(ring, sizeof ring, "%s", cl->plant_name);
		dash = strchr(ring, '-');
		if (dash) {
			*dash = 0;
			snprintf(path, sizeof path, "%s/qb-%s-%s-%s", line + 2, ring, svc_name, dash + 1);
		} else {
			snprintf(path, sizeof path, "%s/qb-%s-%s", line + 2, ring, svc_name);
		}
		if (cl->plant_kind == 3) {
			r = symlink(cl->victim, path);
		} else {
			int fd = open(path, O_CREAT | O_EXCL | O_WRONLY, cl->plant_kind == 1 ? 0666 : 0644);
			if (fd >= 0) {
				if (write(fd, "peer's own\n", 11) < 0) { }
				close(fd);
				r = 0;
			}
		}
		if (r == 0 && lstat(path, &st) == 0) dprintf(ack_fd, "ok %lu\n", (unsigned long)st.st_ino);
		else dprintf(ack_fd, "E %d\n", errno);
	}
}

static void plant_path(struct cli *cl, char *out, size_t n)
{
	char ring[32], *dash;
	snprintf(ring, sizeof ring, "%s", cl->plant_name);
	dash = strchr(ring, '-');
	if (dash) {
		*dash = 0;
		snprintf(out, n, "%s/qb-%s-%s-%s", cl->dir, ring, svc_name, dash + 1);
	} else {
		snprintf(out, n, "%s/qb-%s-%s", cl->dir, ring, svc_name);
	}
}

static void stat_str(const char *p, char *out, size_t n)
{
	struct stat st;
	if (lstat(p, &st) != 0) snprintf(out, n, "gone");
	else snprintf(out, n, "%04o:%d:%d:%ld", (unsigned)(st.st_mode & 07777), (int)st.st_uid, (int)st.st_gid, (long)st.st_size);
}

static void child_main(struct cli *cl, int cmd_fd, int rep_fd, int ack_fd)
{
	qb_ipcc_connection_t *c;
	char b;
	int i, ok = 0;
	adm_child = 1;
	setgroups(0, NULL);
	if (cl->eff_only ? (setegid(cl->gid) != 0 || seteuid(cl->uid) != 0)
			 : (setresgid(cl->gid, cl->gid, cl->gid) != 0 || setresuid(cl->uid, cl->uid, cl->uid) != 0)) {
		dprintf(rep_fd, "ids -1 -1 -1 -1\n");
		_exit(3);
	}
	dprintf(rep_fd, "ids %d %d %d %d\n", (int)getuid(), (int)getgid(), (int)geteuid(), (int)getegid());
	if (cl->raw) raw_child(cl, cmd_fd, rep_fd, ack_fd);
	c = qb_ipcc_connect(svc_name, MAXMSG);
	dprintf(rep_fd, "connect %d\n", c ? 0 : -errno);
	if (read(cmd_fd, &b, 1) != 1) _exit(4);
	for (i = 0; c && i < cl->msgs; i++) {
		struct adm_req rq;
		struct adm_resp rs;
		memset(&rq, 0, sizeof rq);
		rq.hdr.id = REQ_ID;
		rq.hdr.size = sizeof rq;
		rq.n = i;
		if (qb_ipcc_send(c, &rq, sizeof rq) != sizeof rq) break;
		if (qb_ipcc_recv(c, &rs, sizeof rs, 3000) != sizeof rs) break;
		if (rs.n == (uint32_t)i) ok++;
	}
	dprintf(rep_fd, "sent %d\n", ok);
	if (read(cmd_fd, &b, 1) != 1) _exit(4);
	if (c) qb_ipcc_disconnect(c);
	dprintf(rep_fd, "bye\n");
	_exit(0);
}

static void check_phase(void)
{
	int i, all = 1;
	for (i = 0; i < MAXCLI; i++) {
		struct cli *cl = &clis[i];
		if (!cl->used) continue;
		if (phase == 1 && !cl->got_connect) all = 0;
		if (phase == 2 && !cl->got_sent) all = 0;
		if (phase == 3 && (!cl->bye || (cl->established && !cl->destroyed))) all = 0;
	}
	phase_done = all;
}

static void rep_line(struct cli *cl, const char *l)
{
	if (sscanf(l, "ids %d %d %d %d", &cl->real_uid, &cl->real_gid, &cl->eff_uid, &cl->eff_gid) == 4) cl->got_real = 1;
	else if (sscanf(l, "connect %d", &cl->connect_res) == 1) cl->got_connect = 1;
	else if (sscanf(l, "sent %d", &cl->sent) == 1) cl->got_sent = 1;
	else if (strncmp(l, "bye", 3) == 0) cl->bye = 1;
}

static int32_t rep_cb(int32_t fd, int32_t revents, void *data)
{
	struct cli *cl = data;
	char buf[128];
	ssize_t n = read(fd, buf, sizeof buf);
	ssize_t i;
	if (n <= 0) {
		/* the child is gone */
		cl->got_connect = cl->got_connect ? 1 : (cl->connect_res = -999, 1);
		cl->got_sent = 1;
		cl->bye = 1;
		check_phase();
		return -1;	/* remove from the loop */
	}
	for (i = 0; i < n; i++) {
		if (buf[i] == '\n') {
			cl->lbuf[cl->llen] = 0;
			rep_line(cl, cl->lbuf);
			cl->llen = 0;
		} else if (cl->llen < (int)sizeof cl->lbuf - 1) {
			cl->lbuf[cl->llen++] = buf[i];
		}
	}
	check_phase();
	return 0;
}

static int32_t tick_cb(int32_t fd, int32_t revents, void *data)
{
	check_phase();
	return 0;
}

static void run_phase(int ph)
{
	phase = ph;
	phase_done = 0;
	check_phase();
	hl_pump(&phase_done);
}

static int parse_cli(char *line, struct cli *cl)
{
	char *tok, *save = NULL;
	memset(cl, 0, sizeof *cl);
	cl->used = 1;
	cl->sfd = -1;
	cl->frags = 1;
	cl->ackfd = cl->pl_cmd = cl->pl_ack = -1;
	tok = strtok_r(line, " ", &save);	/* "cli" */
	tok = strtok_r(NULL, " ", &save);
	if (!tok) return -1;
	cl->idx = atoi(tok);
	while ((tok = strtok_r(NULL, " ", &save)) != NULL) {
		if (strncmp(tok, "uid=", 4) == 0) cl->uid = atoi(tok + 4);
		else if (strncmp(tok, "gid=", 4) == 0) cl->gid = atoi(tok + 4);
		else if (strncmp(tok, "rc=", 3) == 0) cl->rc = atoi(tok + 3);
		else if (strncmp(tok, "msgs=", 5) == 0) cl->msgs = atoi(tok + 5);
		else if (strcmp(tok, "ids=eff") == 0) cl->eff_only = 1;
		else if (strcmp(tok, "peer=raw") == 0) cl->raw = 1;
		else if (strcmp(tok, "hs=win") == 0) cl->hs = 1;
		else if (strcmp(tok, "hs=post") == 0) cl->hs = 2;
		else if (strncmp(tok, "frag=", 5) == 0) {
			cl->frags = atoi(tok + 5);
			if (cl->frags < 1) cl->frags = 1;
			if (cl->frags > 8) cl->frags = 8;
		} else if (strncmp(tok, "plant=", 6) == 0) {
			char kind[16];
			int k;
			if (sscanf(tok + 6, "%d:%63[^:]:%15s", &k, cl->plant_name, kind) == 3 && k > 0) {
				cl->plant_at = k;
				cl->plant_kind = strcmp(kind, "f666") == 0 ? 1 : strcmp(kind, "f644") == 0 ? 2 : 3;
			}
		}
		else if (strncmp(tok, "auth=", 5) == 0) {
			unsigned m;
			if (sscanf(tok + 5, "%d:%d:%o", &cl->auid, &cl->agid, &m) == 3) {
				cl->has_auth = 1;
				cl->amode = (int)m;
			}
		} else if (strncmp(tok, "fail=", 5) == 0) {
			char en[32];
			int k;
			if (sscanf(tok + 5, "%d:%31s", &k, en) == 2) {
				int e;
				cl->fail_at = k;
				cl->fail_errno = EIO;
				for (e = 1; e < 134; e++) {
					if (strcmp(vl_errname(-e), en) == 0) { cl->fail_errno = e; break; }
				}
			}
		}
	}
	return 0;
}

static void run_group(int n)
{
	int i, k;
	char snap[1400];
	int tick = eventfd(1, EFD_NONBLOCK | EFD_CLOEXEC);
	adm_cur = NULL;
	for (i = 0; i < n; i++) {
		struct cli *cl = &clis[i];
		int cmd[2], rep[2], ack[2];
		if (pipe(cmd) != 0 || pipe(rep) != 0 || pipe(ack) != 0) { printf("EPIPE\n"); return; }
		fflush(stdout);
		if (cl->plant_at > 0) {
			int pc[2], pa[2], vfd;
			REAL(int, open, const char *, int, ...);
			snprintf(cl->victim, sizeof cl->victim, "/dev/shm/c05v-%d-%d", (int)getpid(), cl->idx);
			vfd = real_open(cl->victim, O_CREAT | O_TRUNC | O_WRONLY, 0600);
			if (vfd >= 0) {
				if (write(vfd, "root's secret\n", 14) < 0) { }
				if (fchown(vfd, 0, 0) != 0 || fchmod(vfd, 0600) != 0) { }
				close(vfd);
			}
			stat_str(cl->victim, cl->victim_before, sizeof cl->victim_before);
			if (pipe(pc) == 0 && pipe(pa) == 0) {
				cl->planter = fork();
				if (cl->planter == 0) {
					close(pc[1]);
					close(pa[0]);
					planter_main(cl, pc[0], pa[1]);
					_exit(0);
				}
				close(pc[0]);
				close(pa[1]);
				cl->pl_cmd = pc[1];
				cl->pl_ack = pa[0];
			}
		}
		cl->pid = fork();
		if (cl->pid == 0) {
			close(cmd[1]);
			close(rep[0]);
			close(ack[0]);
			child_main(cl, cmd[0], rep[1], ack[1]);
			_exit(0);
		}
		close(cmd[0]);
		close(rep[1]);
		close(ack[1]);
		cl->ackfd = ack[0];
		cl->cfd = cmd[1];
		cl->rfd = rep[0];
		fcntl(cl->rfd, F_SETFL, fcntl(cl->rfd, F_GETFL) | O_NONBLOCK);
		qb_loop_poll_add(hl_loop, QB_LOOP_MED, cl->rfd, POLLIN, cl, rep_cb);
	}
	/* raw peers with hs=pre have connected and written their handshake before the server accepts anything */
	for (i = 0; i < n; i++) {
		char b;
		if (clis[i].raw && clis[i].hs == 0 && read(clis[i].ackfd, &b, 1) < 0) { /* child gone */ }
	}
	run_phase(1);
	for (i = 0; i < n; i++) {
		struct cli *cl = &clis[i];
		snapshot(cl, snap, sizeof snap);
		ev_add(cl, "connect %d", cl->connect_res);
		ev_add(cl, "snap %s", snap);
		if (write(cl->cfd, "s", 1) != 1) { /* child gone */ }
	}
	run_phase(2);
	for (i = 0; i < n; i++) {
		struct cli *cl = &clis[i];
		ev_add(cl, "msgs sent=%d cbs=%d", cl->sent, cl->msg_cbs);
		if (write(cl->cfd, "d", 1) != 1) { /* child gone */ }
	}
	run_phase(3);
	hl_pump(NULL);
	for (i = 0; i < n; i++) {
		struct cli *cl = &clis[i];
		int st;
		qb_loop_poll_del(hl_loop, cl->rfd);
		close(cl->rfd);
		close(cl->cfd);
		close(cl->ackfd);
		waitpid(cl->pid, &st, 0);
		if (cl->planter > 0) {
			if (write(cl->pl_cmd, "Q\n", 2) < 0) { }
			close(cl->pl_cmd);
			close(cl->pl_ack);
			waitpid(cl->planter, &st, 0);
		}
	}
	for (i = 0; i < n; i++) {
		struct cli *cl = &clis[i];
		snapshot(cl, snap, sizeof snap);
		printf("cli %d\n", cl->idx);
		printf("ids real=%d:%d eff=%d:%d\n", cl->real_uid, cl->real_gid, cl->eff_uid, cl->eff_gid);
		for (k = 0; k < cl->nev; k++) {
			printf("%s\n", cl->ev[k]);
			free(cl->ev[k]);
		}
		/* msg_process may only ever run for connected clients; late callbacks are counted too */
		printf("late cbs=%d\n", cl->msg_cbs);
		if (cl->plant_at > 0) {
			char now[64], pp[600];
			struct stat pst;
			REAL(int, unlink, const char *);
			plant_path(cl, pp, sizeof pp);
			printf("planted %s\n", !cl->plant_ok ? "none" : lstat(pp, &pst) != 0 ? "gone" :
			       (unsigned long)pst.st_ino == cl->plant_ino ? "same" : "changed");
			stat_str(cl->victim, now, sizeof now);
			printf("victim %s -> %s\n", cl->victim_before, now);
			real_unlink(cl->victim);
		}
		printf("residue %s\n", snap);
		if (cl->have_dir) {
			/* remove what the library left behind (it has been reported above) */
			DIR *d = opendir(cl->dir);
			struct dirent *e;
			REAL(int, unlink, const char *);
			REAL(int, rmdir, const char *);
			if (d) {
				while ((e = readdir(d)) != NULL) {
					char p[600];
					if (e->d_name[0] == '.') continue;
					snprintf(p, sizeof p, "%s/%s", cl->dir, e->d_name);
					real_unlink(p);
				}
				closedir(d);
				real_rmdir(cl->dir);
			}
		}
		cl->used = 0;
	}
	close(tick);
	(void)tick_cb;
}

static void svc_stop(void)
{
	if (svc) {
		qb_ipcs_destroy(svc);
		svc = NULL;
		hl_pump(NULL);
	}
}

/* A sanitizer report ends the server process at once.  A janitor process forked at start waits for
 * that (EOF on a pipe whose write end only the harness and its children hold) and removes what this
 * harness process left under /dev/shm/qb-<its pid>-*. */
static void start_janitor(void)
{
	int p[2];
	pid_t parent = getpid();
	if (pipe(p) != 0) return;
	if (fork() == 0) {
		char pfx[64], b;
		DIR *d;
		struct dirent *e;
		int fd;
		adm_child = 1;
		close(p[1]);
		for (fd = 0; fd < 3; fd++) close(fd);
		while (read(p[0], &b, 1) > 0) { }
		char vpfx[64];
		snprintf(pfx, sizeof pfx, "qb-%d-", (int)parent);
		snprintf(vpfx, sizeof vpfx, "c05v-%d-", (int)parent);
		d = opendir("/dev/shm");
		while (d && (e = readdir(d)) != NULL) {
			char path[512], p2[1024];
			DIR *d2;
			struct dirent *e2;
			if (strncmp(e->d_name, vpfx, strlen(vpfx)) == 0) {
				snprintf(path, sizeof path, "/dev/shm/%s", e->d_name);
				unlink(path);
				continue;
			}
			if (strncmp(e->d_name, pfx, strlen(pfx)) != 0) continue;
			snprintf(path, sizeof path, "/dev/shm/%s", e->d_name);
			d2 = opendir(path);
			while (d2 && (e2 = readdir(d2)) != NULL) {
				if (e2->d_name[0] == '.') continue;
				snprintf(p2, sizeof p2, "%s/%s", path, e2->d_name);
				unlink(p2);
			}
			if (d2) closedir(d2);
			rmdir(path);
		}
		_exit(0);
	}
	close(p[0]);
	/* p[1] stays open (and is inherited by the forked clients) until the last of them is gone */
}

int main(void)
{
	char line[1024];
	int pending = 0, have = 0;
	start_janitor();
	hl_init();
	snprintf(shm_pfx, sizeof shm_pfx, "/dev/shm/qb-%d-", (int)getpid());
	while (fgets(line, sizeof line, stdin)) {
		size_t ll = strlen(line);
		while (ll > 0 && (line[ll - 1] == '\n' || line[ll - 1] == '\r' || line[ll - 1] == ' ')) line[--ll] = 0;
		if (ll == 0 || line[0] == '#') continue;
		if (strncmp(line, "case ", 5) == 0) {
			svc_stop();
			umask(022);
			pending = have = 0;
			printf("%s\n", line);
		} else if (strncmp(line, "srv ", 4) == 0) {
			char t[16];
			unsigned um = 022;
			int rc;
			svc_stop();
			sscanf(line + 4, "%15s %o", t, &um);
			umask((mode_t)um);
			snprintf(svc_name, sizeof svc_name, "adm%dx%d", (int)getpid(), ++svc_seq);
			svc = qb_ipcs_create(svc_name, 4, strcmp(t, "sock") == 0 ? QB_IPC_SOCKET : QB_IPC_SHM, &handlers);
			qb_ipcs_poll_handlers_set(svc, &hl_poll_handlers);
			qb_ipcs_enforce_buffer_size(svc, MAXMSG);
			rc = qb_ipcs_run(svc);
			if (rc != 0) printf("srv %s\n", ename(-rc)); else printf("srv ok\n");
		} else if (strncmp(line, "par ", 4) == 0) {
			pending = atoi(line + 4);
			if (pending < 1) pending = 1;
			if (pending > MAXCLI) pending = MAXCLI;
			have = 0;
			printf("par %d\n", pending);
		} else if (strncmp(line, "cli ", 4) == 0) {
			if (!svc) { printf("ENOSRV\n"); continue; }
			if (pending == 0) { pending = 1; have = 0; }
			parse_cli(line, &clis[have++]);
			if (have == pending) {
				run_group(have);
				pending = have = 0;
			}
		} else {
			printf("EINVAL\n");
		}
		fflush(stdout);
	}
	svc_stop();
	hl_rm_rf_shm();
	return 0;
}
