/* C03 crash harness: libc wrappers defined in the harness executable.  They override libc for
 * the statically linked libqb objects (and for the harness itself); the real function is
 * reached through dlsym(RTLD_NEXT).  Every wrapper is a "library-visible call": its entry is
 * a crash point of the process that is armed (victim client / forked server), a gate point
 * of the in-process server (G mode), and, for the blocking ones, a point of the virtual clock
 * of the harness-side client in the server-death direction. */
#ifndef CR_INTERPOSE_H
#define CR_INTERPOSE_H
#include <dlfcn.h>
#include <stdarg.h>
#include <fcntl.h>
#include <poll.h>
#include <signal.h>
#include <semaphore.h>
#include <sys/socket.h>
#include <sys/mman.h>
#include <sys/stat.h>
#include <sys/uio.h>
#include <sys/wait.h>
#include <sys/epoll.h>
#include <time.h>
#include <unistd.h>
#include "cr_shared.h"

enum { CR_ROLE_NONE, CR_ROLE_VICTIM, CR_ROLE_SERVER, CR_ROLE_FSERVER, CR_ROLE_HCLIENT };
static int cr_role = CR_ROLE_NONE;
static struct cr_shared *sh = NULL;

/* provided by ipc_crash.c */
static int cr_victim_gone(void);      /* in-process server: victim reaped? */
static void cr_gate_fire(void);       /* in-process server: kill + reap the victim now */
static int cr_fserver_gone(void);     /* harness-side client: forked server reaped? */
static int cr_idle_point(void);       /* in-process server loop is idle; returns 1 to stop the loop */
static void cr_fserver_idle_kill(void); /* harness-side client: SIGKILL + reap the (idle) forked server */
static void cr_hclient_sleeps(void);    /* harness-side client: entered nanosleep (a zombie server may be reaped now) */

/* server-death direction, the armed call of the server is never reached and the client waits for
 * ever: the server is killed while it sits idle, after it made no call for this long (real time) */
#define CR_IDLE_PATIENCE_US 250000
static int cr_idle_kill_armed = 0;
static int cr_idle_killed = 0;

static int64_t cr_vclock_ms = 0;      /* virtual clock of the harness-side client */
static int64_t cr_call_vstart = 0;    /* virtual time at which the API call under test began */
#define CR_VEPOCH_S 1700000000LL       /* virtual wall clock = CR_VEPOCH_S + cr_vclock_ms */
#define CR_FOREVER_MS 100000           /* a call that waits longer than this (virtual) never returns */
static int cr_blocked_forever = 0;    /* a call would never have returned */
static int cr_fault[CR_NCALLS];       /* how often a wrapper reported an error to the library */

#define CR_REAL(ret, name, ...) \
	static ret (*real_##name)(__VA_ARGS__) = NULL; \
	if (!real_##name) real_##name = (ret (*)(__VA_ARGS__)) dlsym(RTLD_NEXT, #name)

static int64_t cr_now_us(void)
{
	struct timespec ts;
	clock_gettime(CLOCK_MONOTONIC, &ts);
	return (int64_t)ts.tv_sec * 1000000 + ts.tv_nsec / 1000;
}

static void cr_real_sleep_us(long us)
{
	CR_REAL(int, nanosleep, const struct timespec *, struct timespec *);
	struct timespec ts = { us / 1000000, (us % 1000000) * 1000 };
	real_nanosleep(&ts, NULL);
}

/* wait until the server has caught up with everything that is visible to it (or sits blocked
 * inside a handler) */
static void cr_sync_server(void)
{
	int64_t t0 = cr_now_us();
	int req = sh->idle_req + 1;
	sh->idle_req = req;
	while (sh->idle_ack != req && !sh->srv_blocked && cr_now_us() - t0 < 2000000) {
		cr_real_sleep_us(50);
	}
}

static void cr_victim_die(void)
{
	sh->v_api_at_death = sh->v_api;
	if (sh->v_mode == CR_MODE_S || sh->v_mode == CR_MODE_L) {
		/* let the server catch up, then die */
		sh->hold = 0;
		cr_sync_server();
	}
	_exit(17);
}

static void cr_pre(int id, int waitkind)
{
	int n;
	if (!sh) return;
	switch (cr_role) {
	case CR_ROLE_VICTIM:
		if (!sh->v_armed) return;
		n = ++sh->v_ncalls;
		if (n < CR_MAXTRACE) {
			sh->v_trace[n] = (unsigned char)id;
			sh->v_api_of[n] = (unsigned char)sh->v_api;
		}
		if (n == sh->v_crash_at) cr_victim_die();
		if (waitkind && sh->v_mode != CR_MODE_S) sh->hold = 0;
		break;
	case CR_ROLE_SERVER:
		if (sh->g_armed && !sh->g_fired) {
			n = ++sh->g_ncalls;
			if (n < CR_MAXTRACE) sh->g_trace[n] = (unsigned char)id;
			if (n == sh->g_kill_at) {
				cr_gate_fire();
				sh->g_fired = 1;
			}
		}
		break;
	case CR_ROLE_FSERVER:
		if (sh->s_armed) {
			n = ++sh->s_ncalls;
			if (n < CR_MAXTRACE) sh->s_trace[n] = (unsigned char)id;
			if (n == sh->s_die_at) _exit(0);
		}
		break;
	default:
		break;
	}
}

static void cr_post(int waitkind)
{
	if (!sh || cr_role != CR_ROLE_VICTIM || !sh->v_armed) return;
	if (sh->v_mode == CR_MODE_S) {
		/* S: the server has always caught up before the next call */
		cr_sync_server();
	} else if (waitkind) {
		int64_t t0 = cr_now_us();
		sh->hold = 1;
		while (!sh->srv_parked && cr_now_us() - t0 < 2000000) {
			cr_real_sleep_us(50);
		}
	}
}

#define CR_ERRCOUNT(id, failed) do { if ((failed) && cr_role != CR_ROLE_NONE) cr_fault[id]++; } while (0)

/* ---------------------------------------------------------------- plain wrappers */
int socket(int d, int t, int p)
{
	int r; CR_REAL(int, socket, int, int, int);
	cr_pre(CR_socket, 0); r = real_socket(d, t, p); cr_post(0); CR_ERRCOUNT(CR_socket, r < 0); return r;
}
int connect(int fd, const struct sockaddr *a, socklen_t l)
{
	int r; CR_REAL(int, connect, int, const struct sockaddr *, socklen_t);
	cr_pre(CR_connect, 0); r = real_connect(fd, a, l); cr_post(0); CR_ERRCOUNT(CR_connect, r < 0); return r;
}
int bind(int fd, const struct sockaddr *a, socklen_t l)
{
	int r; CR_REAL(int, bind, int, const struct sockaddr *, socklen_t);
	cr_pre(CR_bind, 0); r = real_bind(fd, a, l); cr_post(0); CR_ERRCOUNT(CR_bind, r < 0); return r;
}
int accept(int fd, struct sockaddr *a, socklen_t *l)
{
	int r; CR_REAL(int, accept, int, struct sockaddr *, socklen_t *);
	cr_pre(CR_accept, 0); r = real_accept(fd, a, l); cr_post(0); CR_ERRCOUNT(CR_accept, r < 0); return r;
}
int fcntl(int fd, int cmd, ...)
{
	va_list ap; long arg; int r;
	CR_REAL(int, fcntl, int, int, ...);
	va_start(ap, cmd); arg = va_arg(ap, long); va_end(ap);
	cr_pre(CR_fcntl, 0); r = real_fcntl(fd, cmd, arg); cr_post(0); CR_ERRCOUNT(CR_fcntl, r < 0); return r;
}
int setsockopt(int fd, int lvl, int opt, const void *v, socklen_t l)
{
	int r; CR_REAL(int, setsockopt, int, int, int, const void *, socklen_t);
	cr_pre(CR_setsockopt, 0); r = real_setsockopt(fd, lvl, opt, v, l); cr_post(0); CR_ERRCOUNT(CR_setsockopt, r < 0); return r;
}
int getsockopt(int fd, int lvl, int opt, void *v, socklen_t *l)
{
	int r; CR_REAL(int, getsockopt, int, int, int, void *, socklen_t *);
	cr_pre(CR_getsockopt, 0); r = real_getsockopt(fd, lvl, opt, v, l); cr_post(0); CR_ERRCOUNT(CR_getsockopt, r < 0); return r;
}
int getsockname(int fd, struct sockaddr *a, socklen_t *l)
{
	int r; CR_REAL(int, getsockname, int, struct sockaddr *, socklen_t *);
	cr_pre(CR_getsockname, 0); r = real_getsockname(fd, a, l); cr_post(0); return r;
}
ssize_t send(int fd, const void *b, size_t n, int fl)
{
	ssize_t r; CR_REAL(ssize_t, send, int, const void *, size_t, int);
	cr_pre(CR_send, 0); r = real_send(fd, b, n, fl); cr_post(0); CR_ERRCOUNT(CR_send, r < 0 && errno != EAGAIN); return r;
}
ssize_t recv(int fd, void *b, size_t n, int fl)
{
	ssize_t r; CR_REAL(ssize_t, recv, int, void *, size_t, int);
	cr_pre(CR_recv, 0); r = real_recv(fd, b, n, fl); cr_post(0); CR_ERRCOUNT(CR_recv, r == 0 || (r < 0 && errno != EAGAIN)); return r;
}
ssize_t recvmsg(int fd, struct msghdr *m, int fl)
{
	ssize_t r; CR_REAL(ssize_t, recvmsg, int, struct msghdr *, int);
	cr_pre(CR_recvmsg, 0); r = real_recvmsg(fd, m, fl); cr_post(0); CR_ERRCOUNT(CR_recvmsg, r == 0 || (r < 0 && errno != EAGAIN)); return r;
}
ssize_t sendmsg(int fd, const struct msghdr *m, int fl)
{
	ssize_t r; CR_REAL(ssize_t, sendmsg, int, const struct msghdr *, int);
	cr_pre(CR_sendmsg, 0); r = real_sendmsg(fd, m, fl); cr_post(0); CR_ERRCOUNT(CR_sendmsg, r < 0 && errno != EAGAIN); return r;
}
ssize_t writev(int fd, const struct iovec *v, int n)
{
	ssize_t r; CR_REAL(ssize_t, writev, int, const struct iovec *, int);
	cr_pre(CR_writev, 0); r = real_writev(fd, v, n); cr_post(0); CR_ERRCOUNT(CR_writev, r < 0 && errno != EAGAIN); return r;
}
int open(const char *p, int fl, ...)
{
	va_list ap; int mode; int r;
	CR_REAL(int, open, const char *, int, ...);
	va_start(ap, fl); mode = va_arg(ap, int); va_end(ap);
	cr_pre(CR_open, 0); r = real_open(p, fl, mode); cr_post(0); CR_ERRCOUNT(CR_open, r < 0); return r;
}
int openat(int d, const char *p, int fl, ...)
{
	va_list ap; int mode; int r;
	CR_REAL(int, openat, int, const char *, int, ...);
	va_start(ap, fl); mode = va_arg(ap, int); va_end(ap);
	cr_pre(CR_openat, 0); r = real_openat(d, p, fl, mode); cr_post(0); CR_ERRCOUNT(CR_openat, r < 0); return r;
}
int ftruncate(int fd, off_t n)
{
	int r; CR_REAL(int, ftruncate, int, off_t);
	cr_pre(CR_ftruncate, 0); r = real_ftruncate(fd, n); cr_post(0); CR_ERRCOUNT(CR_ftruncate, r < 0); return r;
}
int truncate(const char *p, off_t n)
{
	int r; CR_REAL(int, truncate, const char *, off_t);
	cr_pre(CR_truncate, 0); r = real_truncate(p, n); cr_post(0); CR_ERRCOUNT(CR_truncate, r < 0); return r;
}
int posix_fallocate(int fd, off_t o, off_t n)
{
	int r; CR_REAL(int, posix_fallocate, int, off_t, off_t);
	cr_pre(CR_posix_fallocate, 0); r = real_posix_fallocate(fd, o, n); cr_post(0); CR_ERRCOUNT(CR_posix_fallocate, r != 0); return r;
}
void *mmap(void *a, size_t n, int pr, int fl, int fd, off_t o)
{
	void *r; CR_REAL(void *, mmap, void *, size_t, int, int, int, off_t);
	cr_pre(CR_mmap, 0); r = real_mmap(a, n, pr, fl, fd, o); cr_post(0); CR_ERRCOUNT(CR_mmap, r == MAP_FAILED); return r;
}
int munmap(void *a, size_t n)
{
	int r; CR_REAL(int, munmap, void *, size_t);
	cr_pre(CR_munmap, 0); r = real_munmap(a, n); cr_post(0); CR_ERRCOUNT(CR_munmap, r < 0); return r;
}
int close(int fd)
{
	int r; CR_REAL(int, close, int);
	cr_pre(CR_close, 0); r = real_close(fd); cr_post(0); CR_ERRCOUNT(CR_close, r < 0); return r;
}
int shutdown(int fd, int how)
{
	int r; CR_REAL(int, shutdown, int, int);
	cr_pre(CR_shutdown, 0); r = real_shutdown(fd, how); cr_post(0); return r;
}
int unlink(const char *p)
{
	int r; CR_REAL(int, unlink, const char *);
	cr_pre(CR_unlink, 0); r = real_unlink(p); cr_post(0); CR_ERRCOUNT(CR_unlink, r < 0); return r;
}
int unlinkat(int d, const char *p, int fl)
{
	int r; CR_REAL(int, unlinkat, int, const char *, int);
	cr_pre(CR_unlinkat, 0); r = real_unlinkat(d, p, fl); cr_post(0); CR_ERRCOUNT(CR_unlinkat, r < 0); return r;
}
int rmdir(const char *p)
{
	int r; CR_REAL(int, rmdir, const char *);
	cr_pre(CR_rmdir, 0); r = real_rmdir(p); cr_post(0); CR_ERRCOUNT(CR_rmdir, r < 0); return r;
}
char *mkdtemp(char *t)
{
	char *r; CR_REAL(char *, mkdtemp, char *);
	cr_pre(CR_mkdtemp, 0); r = real_mkdtemp(t); cr_post(0); CR_ERRCOUNT(CR_mkdtemp, r == NULL); return r;
}
int chmod(const char *p, mode_t m)
{
	int r; CR_REAL(int, chmod, const char *, mode_t);
	cr_pre(CR_chmod, 0); r = real_chmod(p, m); cr_post(0); CR_ERRCOUNT(CR_chmod, r < 0); return r;
}
int chown(const char *p, uid_t u, gid_t g)
{
	int r; CR_REAL(int, chown, const char *, uid_t, gid_t);
	cr_pre(CR_chown, 0); r = real_chown(p, u, g); cr_post(0); CR_ERRCOUNT(CR_chown, r < 0); return r;
}
int sem_init(sem_t *s, int ps, unsigned v)
{
	int r; CR_REAL(int, sem_init, sem_t *, int, unsigned);
	cr_pre(CR_sem_init, 0); r = real_sem_init(s, ps, v); cr_post(0); return r;
}
int sem_destroy(sem_t *s)
{
	int r; CR_REAL(int, sem_destroy, sem_t *);
	cr_pre(CR_sem_destroy, 0); r = real_sem_destroy(s); cr_post(0); return r;
}
int sem_post(sem_t *s)
{
	int r; CR_REAL(int, sem_post, sem_t *);
	cr_pre(CR_sem_post, 0); r = real_sem_post(s); cr_post(0); return r;
}
int sem_trywait(sem_t *s)
{
	int r; CR_REAL(int, sem_trywait, sem_t *);
	cr_pre(CR_sem_trywait, 0); r = real_sem_trywait(s); cr_post(0); return r;
}
int sem_getvalue(sem_t *s, int *v)
{
	int r; CR_REAL(int, sem_getvalue, sem_t *, int *);
	cr_pre(CR_sem_getvalue, 0); r = real_sem_getvalue(s, v); cr_post(0); return r;
}
int kill(pid_t p, int sig)
{
	int r; CR_REAL(int, kill, pid_t, int);
	cr_pre(CR_kill, 0); r = real_kill(p, sig); cr_post(0); return r;
}
int sigaction(int sig, const struct sigaction *a, struct sigaction *o)
{
	int r; CR_REAL(int, sigaction, int, const struct sigaction *, struct sigaction *);
	if (sig == SIGBUS) cr_pre(CR_sigaction, 0);
	r = real_sigaction(sig, a, o);
	if (sig == SIGBUS) cr_post(0);
	return r;
}

/* ---------------------------------------------------------------- blocking calls */
/* wall clock of the harness-side client = the virtual clock (so that absolute deadlines computed
 * by the library are exact in virtual milliseconds) */
int clock_gettime(clockid_t clk, struct timespec *ts)
{
	CR_REAL(int, clock_gettime, clockid_t, struct timespec *);
	if (cr_role == CR_ROLE_HCLIENT && (clk == CLOCK_REALTIME || clk == CLOCK_REALTIME_COARSE)) {
		ts->tv_sec = CR_VEPOCH_S + cr_vclock_ms / 1000;
		ts->tv_nsec = (cr_vclock_ms % 1000) * 1000000L;
		return 0;
	}
	return real_clock_gettime(clk, ts);
}

int poll(struct pollfd *fds, nfds_t n, int timeout)
{
	int r;
	CR_REAL(int, poll, struct pollfd *, nfds_t, int);
	cr_pre(CR_poll, timeout != 0);
	if (cr_role == CR_ROLE_HCLIENT) {
		/* virtual clock: time passes only while the forked server is dead */
		int64_t t0 = cr_now_us();
		int seen = sh ? sh->s_ncalls : 0;
		for (;;) {
			r = real_poll(fds, n, 0);
			if (r != 0 || timeout == 0) break;
			if (cr_fserver_gone()) {
				r = real_poll(fds, n, 0);
				if (r != 0) break;
				if (timeout < 0 || cr_vclock_ms - cr_call_vstart > CR_FOREVER_MS) {
					cr_blocked_forever++;
					errno = EBADF;
					r = -1;
				} else {
					cr_vclock_ms += timeout;
					r = 0;
				}
				break;
			}
			if (timeout > 0 && cr_now_us() - t0 > (int64_t)timeout * 1000) {
				cr_vclock_ms += timeout;
				r = 0;
				break;
			}
			if (timeout < 0 && cr_idle_kill_armed) {
				if (sh->s_ncalls != seen) { seen = sh->s_ncalls; t0 = cr_now_us(); }
				else if (cr_now_us() - t0 > CR_IDLE_PATIENCE_US) { cr_fserver_idle_kill(); cr_idle_killed = 1; }
			}
			cr_real_sleep_us(200);
		}
	} else if (cr_role == CR_ROLE_SERVER && timeout < 0 && sh) {
		/* the in-process server blocks inside a handler: tell the victim (L mode) */
		r = real_poll(fds, n, 0);
		if (r == 0) {
			sh->srv_blocked = 1;
			r = real_poll(fds, n, timeout);
			sh->srv_blocked = 0;
		}
	} else {
		r = real_poll(fds, n, timeout);
	}
	cr_post(timeout != 0);
	CR_ERRCOUNT(CR_poll, r < 0);
	return r;
}

int sem_timedwait(sem_t *s, const struct timespec *abs)
{
	int r;
	CR_REAL(int, sem_timedwait, sem_t *, const struct timespec *);
	CR_REAL(int, sem_trywait, sem_t *);
	cr_pre(CR_sem_timedwait, 1);
	if (cr_role == CR_ROLE_HCLIENT) {
		int64_t rel_ms;
		int64_t t0 = cr_now_us();
		rel_ms = ((int64_t)abs->tv_sec - CR_VEPOCH_S) * 1000 + abs->tv_nsec / 1000000 - cr_vclock_ms;
		if (rel_ms < 0) rel_ms = 0;
		for (;;) {
			r = real_sem_trywait(s);
			if (r == 0) break;
			if (cr_fserver_gone()) {
				r = real_sem_trywait(s);
				if (r == 0) break;
				cr_vclock_ms += rel_ms;
				errno = ETIMEDOUT;
				r = -1;
				break;
			}
			if (cr_now_us() - t0 > rel_ms * 1000) {
				cr_vclock_ms += rel_ms;
				errno = ETIMEDOUT;
				r = -1;
				break;
			}
			cr_real_sleep_us(200);
		}
	} else {
		r = real_sem_timedwait(s, abs);
	}
	cr_post(1);
	return r;
}

int sem_wait(sem_t *s)
{
	int r;
	CR_REAL(int, sem_wait, sem_t *);
	CR_REAL(int, sem_trywait, sem_t *);
	cr_pre(CR_sem_wait, 1);
	if (cr_role == CR_ROLE_HCLIENT) {
		for (;;) {
			r = real_sem_trywait(s);
			if (r == 0) break;
			if (cr_fserver_gone()) {
				r = real_sem_trywait(s);
				if (r == 0) break;
				cr_blocked_forever++;
				errno = EINVAL;
				r = -1;
				break;
			}
			cr_real_sleep_us(200);
		}
	} else {
		r = real_sem_wait(s);
	}
	cr_post(1);
	return r;
}

int nanosleep(const struct timespec *req, struct timespec *rem)
{
	int r = 0;
	CR_REAL(int, nanosleep, const struct timespec *, struct timespec *);
	cr_pre(CR_nanosleep, 1);
	if (cr_role == CR_ROLE_HCLIENT) {
		cr_vclock_ms += (int64_t)req->tv_sec * 1000 + req->tv_nsec / 1000000;
		if (rem) { rem->tv_sec = 0; rem->tv_nsec = 0; }
		cr_hclient_sleeps();
		cr_real_sleep_us(500);
	} else {
		r = real_nanosleep(req, rem);
	}
	cr_post(1);
	return r;
}

int usleep(useconds_t us)
{
	int r = 0;
	CR_REAL(int, usleep, useconds_t);
	cr_pre(CR_usleep, 1);
	if (cr_role == CR_ROLE_HCLIENT) {
		cr_vclock_ms += us / 1000;
		cr_real_sleep_us(500);
	} else {
		r = real_usleep(us);
	}
	cr_post(1);
	return r;
}

/* ---------------------------------------------------------------- the in-process server's loop */
int epoll_wait(int epfd, struct epoll_event *ev, int max, int timeout)
{
	int n;
	int64_t t0;
	CR_REAL(int, epoll_wait, int, struct epoll_event *, int, int);
	if (cr_role != CR_ROLE_SERVER || !sh) {
		return real_epoll_wait(epfd, ev, max, timeout);
	}
	t0 = cr_now_us();
	for (;;) {
		if (sh->hold && !cr_victim_gone()) {
			sh->srv_parked = 1;
			while (sh->hold && !cr_victim_gone()) {
				cr_real_sleep_us(50);
			}
			sh->srv_parked = 0;
		}
		{
			int req = sh->idle_req;   /* read BEFORE looking: whatever preceded the request is visible below */
			n = real_epoll_wait(epfd, ev, max, 0);
			if (n != 0) return n;
			if (timeout == 0) return 0;
			/* nothing visible is left to do */
			sh->idle_ack = req;
		}
		if (cr_idle_point()) return 0;
		cr_real_sleep_us(60);
		if (timeout > 0 && cr_now_us() - t0 > (int64_t)timeout * 1000) return 0;
	}
}

#endif
