/* hl_loop.h -- helpers shared by harness/ipc/ipc_hostile.c and harness/ipc/ipcs_life.c
 * (C06 / C04).  Real qb_loop, wired to qb_ipcs through counting trampolines so that the
 * harness can run the server "until quiescent" (pump) from the same thread that plays the
 * clients.  Nothing here replaces library code: the trampolines only count and forward. */
#ifndef HL_LOOP_H
#define HL_LOOP_H
#include "os_base.h"
#include <poll.h>
#include <dirent.h>
#include <pthread.h>
#include <sys/un.h>
#include <sys/mman.h>
#include <sys/stat.h>
#include <time.h>
#include <sys/eventfd.h>
#include <qb/qbdefs.h>
#include <qb/qbloop.h>
#include <qb/qblog.h>
#include <qb/qbipcs.h>
#include <qb/qbipcc.h>
#include <qb/qbrb.h>
#include "util_int.h"
#include "ipc_int.h"
#include "lineio.h"

static qb_loop_t *hl_loop;
static unsigned long hl_dispatches;	/* library callbacks dispatched by the loop so far */

#define HL_MAXFD 4096
struct hl_fdrec {
	qb_ipcs_dispatch_fn_t fn;
	void *data;
};
static struct hl_fdrec hl_fdtab[HL_MAXFD];

static int32_t hl_fd_tramp(int32_t fd, int32_t revents, void *data)
{
	struct hl_fdrec *r = data;
	qb_ipcs_dispatch_fn_t fn = r->fn;
	void *d = r->data;
	hl_dispatches++;
	return fn(fd, revents, d);
}

static int32_t hl_dispatch_add(enum qb_loop_priority p, int32_t fd, int32_t events,
			       void *data, qb_ipcs_dispatch_fn_t fn)
{
	if (fd < 0 || fd >= HL_MAXFD) return -EINVAL;
	hl_fdtab[fd].fn = fn;
	hl_fdtab[fd].data = data;
	return qb_loop_poll_add(hl_loop, p, fd, events, &hl_fdtab[fd], hl_fd_tramp);
}

static int32_t hl_dispatch_mod(enum qb_loop_priority p, int32_t fd, int32_t events,
			       void *data, qb_ipcs_dispatch_fn_t fn)
{
	if (fd < 0 || fd >= HL_MAXFD) return -EINVAL;
	hl_fdtab[fd].fn = fn;
	hl_fdtab[fd].data = data;
	return qb_loop_poll_mod(hl_loop, p, fd, events, &hl_fdtab[fd], hl_fd_tramp);
}

static int32_t hl_dispatch_del(int32_t fd)
{
	return qb_loop_poll_del(hl_loop, fd);
}

struct hl_jobrec {
	qb_loop_job_dispatch_fn fn;
	void *data;
};
static int hl_jobs_pending;	/* library jobs queued and not yet run */

static void hl_job_tramp(void *data)
{
	struct hl_jobrec *r = data;
	qb_loop_job_dispatch_fn fn = r->fn;
	void *d = r->data;
	free(r);
	hl_dispatches++;
	hl_jobs_pending--;
	fn(d);
}

static int32_t hl_job_add(enum qb_loop_priority p, void *data, qb_loop_job_dispatch_fn fn)
{
	struct hl_jobrec *r = malloc(sizeof(*r));
	int32_t rc;
	if (r == NULL) return -ENOMEM;
	r->fn = fn;
	r->data = data;
	rc = qb_loop_job_add(hl_loop, p, r, hl_job_tramp);
	if (rc != 0) free(r); else hl_jobs_pending++;
	return rc;
}

static struct qb_ipcs_poll_handlers hl_poll_handlers = {
	.job_add = hl_job_add,
	.dispatch_add = hl_dispatch_add,
	.dispatch_mod = hl_dispatch_mod,
	.dispatch_del = hl_dispatch_del,
};

/* ---- pump: run the real loop until nothing is dispatched any more ------------------- */
static volatile int *hl_pump_until;	/* optional: keep running until *flag != 0 */
static unsigned long hl_pump_last;
static int hl_pump_idle;
static int hl_pump_timed_out;
static struct timespec hl_pump_t0;
static int hl_pump_hold_jobs;		/* 1: do not wait for library jobs to drain (C04: RunJob is an op) */

static double hl_elapsed(void)
{
	struct timespec t;
	clock_gettime(CLOCK_MONOTONIC, &t);
	return (t.tv_sec - hl_pump_t0.tv_sec) + (t.tv_nsec - hl_pump_t0.tv_nsec) / 1e9;
}

/* The pump driver is an always-readable eventfd registered at LOW priority (a job would make
 * qb_loop_run sleep 50 ms per iteration); it only counts idle iterations and stops the loop. */
static int hl_pump_efd = -1;

static int32_t hl_pump_cb(int32_t fd, int32_t revents, void *data)
{
	int waiting = (hl_pump_until && !*hl_pump_until);
	if (hl_dispatches == hl_pump_last) hl_pump_idle++; else hl_pump_idle = 0;
	hl_pump_last = hl_dispatches;
	if (hl_pump_idle >= 3 && !waiting && (hl_pump_hold_jobs || hl_jobs_pending <= 0)) {
		qb_loop_stop(hl_loop);
		return 0;
	}
	if (hl_elapsed() > 8.0) {
		hl_pump_timed_out = 1;
		qb_loop_stop(hl_loop);
		return 0;
	}
	if (hl_pump_idle >= 3) {
		struct timespec ts = {0, 200000};
		nanosleep(&ts, NULL);
	}
	return 0;
}

/* returns 0, or -1 when the server did not become quiescent within the time cap */
static int hl_pump(volatile int *until)
{
	if (hl_pump_efd < 0) {
		hl_pump_efd = eventfd(1, EFD_NONBLOCK | EFD_CLOEXEC);
	}
	hl_pump_until = until;
	hl_pump_last = hl_dispatches;
	hl_pump_idle = 0;
	hl_pump_timed_out = 0;
	clock_gettime(CLOCK_MONOTONIC, &hl_pump_t0);
	qb_loop_poll_add(hl_loop, QB_LOOP_LOW, hl_pump_efd, POLLIN, NULL, hl_pump_cb);
	qb_loop_run(hl_loop);
	qb_loop_poll_del(hl_loop, hl_pump_efd);
	return hl_pump_timed_out ? -1 : 0;
}

/* ---- resource observation ------------------------------------------------------------ */
static int hl_count_fds(void)
{
	DIR *d = opendir("/proc/self/fd");
	struct dirent *e;
	int n = 0;
	if (!d) return -1;
	while ((e = readdir(d)) != NULL) {
		if (e->d_name[0] != '.') n++;
	}
	closedir(d);
	return n - 1;	/* the DIR's own descriptor */
}

/* entries /dev/shm/qb-<mypid>-* (connection directories created by handle_new_connection) */
static int hl_count_shm_dirs(void)
{
	DIR *d = opendir("/dev/shm");
	struct dirent *e;
	char pfx[64];
	int n = 0;
	if (!d) return -1;
	snprintf(pfx, sizeof pfx, "qb-%d-", (int)getpid());
	while ((e = readdir(d)) != NULL) {
		if (strncmp(e->d_name, pfx, strlen(pfx)) == 0) n++;
	}
	closedir(d);
	return n;
}

static void hl_rm_rf_shm(void)
{
	/* last-resort cleanup of this process's own leftovers (a leak is reported before) */
	DIR *d = opendir("/dev/shm");
	struct dirent *e;
	char pfx[64], path[512], p2[1024];
	if (!d) return;
	snprintf(pfx, sizeof pfx, "qb-%d-", (int)getpid());
	while ((e = readdir(d)) != NULL) {
		if (strncmp(e->d_name, pfx, strlen(pfx)) != 0) continue;
		snprintf(path, sizeof path, "/dev/shm/%s", e->d_name);
		DIR *d2 = opendir(path);
		if (d2) {
			struct dirent *e2;
			while ((e2 = readdir(d2)) != NULL) {
				if (e2->d_name[0] == '.') continue;
				snprintf(p2, sizeof p2, "%s/%s", path, e2->d_name);
				unlink(p2);
			}
			closedir(d2);
			rmdir(path);
		} else {
			unlink(path);
		}
	}
	closedir(d);
}

/* ---- connection ids (first-seen order, dropped at destroyed) --------------------------- */
#define HL_MAXCONN 256
static void *hl_conn_ptr[HL_MAXCONN];
static int hl_conn_id[HL_MAXCONN];
static int hl_next_conn_id = 1;

static int hl_cid_new(void *c)
{
	int i;
	for (i = 0; i < HL_MAXCONN; i++) {
		if (hl_conn_ptr[i] == NULL) {
			hl_conn_ptr[i] = c;
			hl_conn_id[i] = hl_next_conn_id++;
			return hl_conn_id[i];
		}
	}
	return -1;
}

static int hl_cid(void *c)
{
	int i;
	for (i = 0; i < HL_MAXCONN; i++) {
		if (hl_conn_ptr[i] == c) return hl_conn_id[i];
	}
	return 0;
}

static void *hl_cptr(int id)
{
	int i;
	for (i = 0; i < HL_MAXCONN; i++) {
		if (hl_conn_ptr[i] && hl_conn_id[i] == id) return hl_conn_ptr[i];
	}
	return NULL;
}

static void hl_cid_drop(void *c)
{
	int i;
	for (i = 0; i < HL_MAXCONN; i++) {
		if (hl_conn_ptr[i] == c) hl_conn_ptr[i] = NULL;
	}
}

static void hl_cid_reset(void)
{
	memset(hl_conn_ptr, 0, sizeof hl_conn_ptr);
	hl_next_conn_id = 1;
}

static void hl_init(void)
{
	VL_INIT();
	signal(SIGPIPE, SIG_IGN);
	qb_log_init("hl", LOG_USER, LOG_EMERG);
	qb_log_ctl(QB_LOG_SYSLOG, QB_LOG_CONF_ENABLED, QB_FALSE);
	if (getenv("HL_DEBUG")) {
		qb_log_filter_ctl(QB_LOG_STDERR, QB_LOG_FILTER_ADD, QB_LOG_FILTER_FILE, "*", LOG_TRACE);
		qb_log_format_set(QB_LOG_STDERR, "lib: %f:%l %b");
		qb_log_ctl(QB_LOG_STDERR, QB_LOG_CONF_ENABLED, QB_TRUE);
	}
	hl_loop = qb_loop_create();
}

/* raw stream connection to the service's abstract socket, non-blocking */
static int hl_raw_connect(const char *name)
{
	struct sockaddr_un a;
	int fd = socket(PF_UNIX, SOCK_STREAM, 0);
	int fl;
	if (fd < 0) return -errno;
	memset(&a, 0, sizeof a);
	a.sun_family = AF_UNIX;
	snprintf(a.sun_path + 1, sizeof(a.sun_path) - 1, "%s", name);
	/* abstract names are compared over the whole (zero padded) sun_path, as libqb binds them */
	if (connect(fd, (struct sockaddr *)&a, sizeof(a)) < 0) {
		int e = errno;
		close(fd);
		return -e;
	}
	fl = fcntl(fd, F_GETFL);
	fcntl(fd, F_SETFL, fl | O_NONBLOCK);
	return fd;
}
#endif
