/* C03 — death of the IPC peer at any point is detected and fully cleaned up.
 *
 * Fault enumeration harness (DESIGN.md 2.3 mechanism X, "fault enumeration as correspondence").
 *
 * Client-death direction (ops cdry / cdeath / gdry / gdeath / hs): an in-process server
 * (qb_ipcs_* + qb_loop in this process, under ASan) serves a bystander client and a victim
 * client, both forked.  The victim _exits immediately before its k-th library-visible call
 * (cr_interpose.h), or is SIGKILLed by the server at the server's own g-th call, or is a raw
 * client that sends a prefix of the handshake record and dies.  Reported: server callbacks,
 * qb_ipcs_stats_get, diffs of /proc/self/fd, /dev/shm/qb-<pid>-*, file mappings, loop
 * registrations and heap bytes, and whether the bystander is still served.
 *
 * Server-death direction (ops sdry / sdeath): the SERVER is forked and dies at its s-th call
 * (or is SIGKILLed at a scripted point); the client API runs in this process on a virtual
 * clock (time passes only in blocking calls once the server is dead).
 *
 * Line protocol: see tools/crashgen.py.  One case = one op line. */
#include "os_base.h"
#include <poll.h>
#include <dirent.h>
#include <sys/mman.h>
#include <sys/wait.h>
#include <sys/un.h>
#include <qb/qbdefs.h>
#include <qb/qbloop.h>
#include <qb/qbipcs.h>
#include <qb/qbipcc.h>
#include <qb/qblog.h>
#include "ipc_int.h"
#include "lineio.h"
#include "cr_interpose.h"

size_t __sanitizer_get_current_allocated_bytes(void) __attribute__((weak));

#define MAX_MSG 8192
#define REQ_ECHO   (QB_IPC_MSG_USER_START + 1)
#define REQ_EVENTS (QB_IPC_MSG_USER_START + 2)
#define REQ_NORESP (QB_IPC_MSG_USER_START + 3)
#define EVT_ID     (QB_IPC_MSG_USER_START + 100)

struct my_req {
	struct qb_ipc_request_header hdr;
	int32_t arg;
	char pad[44];
};
struct my_res {
	struct qb_ipc_response_header hdr;
	int32_t arg;
	char pad[40];
};

static int mute = 0;             /* re-run of a case only to re-measure the heap delta */
#define OUT(...) do { if (!mute) printf(__VA_ARGS__); } while (0)

static qb_loop_t *loop;
static qb_ipcs_service_t *svc;
static char svc_name[64];
static int svc_seq = 0;
static pid_t my_pid;

static pid_t victim_pid = -1, bystander_pid = -1, fserver_pid = -1;
static int victim_reaped = 0, victim_status = 0;
static int bystander_reaped = 0, bystander_status = 0;
static int fserver_reaped = 0, fserver_status = 0;
static int bystander_go_fd = -1;
/* server-death direction, "dead but not reaped": the forked server has been SIGKILLed and is a
 * zombie (its descriptors are closed, kill(pid, 0) still succeeds); reap() leaves it alone */
static int fserver_zombie_hold = 0;
static int cr_late_reap_at = 0;     /* reap the zombie during the client's k-th nanosleep (0 = never) */
static int cr_late_sleeps = 0;

/* ------------------------------------------------------------------ children bookkeeping */
static void reap(void)
{
	int st;
	if (victim_pid > 0 && !victim_reaped && waitpid(victim_pid, &st, WNOHANG) == victim_pid) {
		victim_reaped = 1; victim_status = st;
	}
	if (bystander_pid > 0 && !bystander_reaped && waitpid(bystander_pid, &st, WNOHANG) == bystander_pid) {
		bystander_reaped = 1; bystander_status = st;
	}
	if (fserver_pid > 0 && !fserver_reaped && !fserver_zombie_hold && waitpid(fserver_pid, &st, WNOHANG) == fserver_pid) {
		fserver_reaped = 1; fserver_status = st;
	}
}
static int cr_victim_gone(void) { reap(); return victim_pid <= 0 || victim_reaped; }
static int cr_fserver_gone(void) { reap(); return fserver_pid <= 0 || fserver_reaped || fserver_zombie_hold; }
static void fserver_reap_now(void)
{
	int st;
	fserver_zombie_hold = 0;
	if (fserver_pid > 0 && !fserver_reaped && waitpid(fserver_pid, &st, 0) == fserver_pid) {
		fserver_reaped = 1; fserver_status = st;
	}
}
/* called by the nanosleep wrapper of the harness-side client */
static void cr_hclient_sleeps(void)
{
	if (cr_late_reap_at > 0 && ++cr_late_sleeps == cr_late_reap_at) fserver_reap_now();
}
static void cr_fserver_idle_kill(void)
{
	CR_REAL(int, kill, pid_t, int);
	if (fserver_pid > 0 && !fserver_reaped) {
		real_kill(fserver_pid, SIGKILL);
		while (!cr_fserver_gone()) cr_real_sleep_us(100);
	}
}
static void cr_gate_fire(void)
{
	int st;
	CR_REAL(int, kill, pid_t, int);
	if (victim_pid > 0 && !victim_reaped) {
		real_kill(victim_pid, SIGKILL);
		if (waitpid(victim_pid, &st, 0) == victim_pid) { victim_reaped = 1; victim_status = st; }
	}
}

/* ------------------------------------------------------------------ loop control */
static int (*run_cond)(void) = NULL;
static int64_t run_deadline = 0;
static int run_timed_out = 0;
static int run_streak = 0;

static int cr_idle_point(void)
{
	reap();
	if (run_cond && run_cond()) {
		if (++run_streak >= 2) { qb_loop_stop(loop); return 1; }
	} else {
		run_streak = 0;
	}
	if (cr_now_us() > run_deadline) { run_timed_out = 1; qb_loop_stop(loop); return 1; }
	return 0;
}

static void run_until(int (*cond)(void), int max_ms)
{
	run_cond = cond;
	run_deadline = cr_now_us() + (int64_t)max_ms * 1000;
	run_timed_out = 0;
	run_streak = 0;
	qb_loop_run(loop);
}

/* ------------------------------------------------------------------ loop registrations (ledger) */
#define MAXREG 256
static int reg_fd[MAXREG];
static int nreg = 0;
static int reg_add_calls = 0, reg_del_calls = 0;

static int32_t my_job_add(enum qb_loop_priority p, void *data, qb_loop_job_dispatch_fn fn)
{
	return qb_loop_job_add(loop, p, data, fn);
}
static int32_t my_dispatch_add(enum qb_loop_priority p, int32_t fd, int32_t events, void *data, qb_ipcs_dispatch_fn_t fn)
{
	int32_t r = qb_loop_poll_add(loop, p, fd, events, data, fn);
	if (r == 0 && nreg < MAXREG) reg_fd[nreg++] = fd;
	reg_add_calls++;
	return r;
}
static int32_t my_dispatch_mod(enum qb_loop_priority p, int32_t fd, int32_t events, void *data, qb_ipcs_dispatch_fn_t fn)
{
	return qb_loop_poll_mod(loop, p, fd, events, data, fn);
}
static int32_t my_dispatch_del(int32_t fd)
{
	int i;
	int32_t r = qb_loop_poll_del(loop, fd);
	reg_del_calls++;
	if (r == 0) {
		for (i = 0; i < nreg; i++) {
			if (reg_fd[i] == fd) { reg_fd[i] = reg_fd[--nreg]; break; }
		}
	}
	return r;
}

/* ------------------------------------------------------------------ server callbacks */
#define MAXCONN 16
struct conn_rec { void *c; char who; int accept, created, msgs, closed, destroyed; };
static struct conn_rec conns[MAXCONN];
static int nconns = 0;
static int quiet_cb = 0;          /* forked server: no output */
static int accept_rc = 0;

static char who_of_pid(pid_t p)
{
	if (p == victim_pid) return 'v';
	if (p == bystander_pid) return 'b';
	return 'x';
}
static struct conn_rec *rec_of(qb_ipcs_connection_t *c, int create)
{
	int i;
	struct qb_ipcs_connection_stats st;
	for (i = 0; i < nconns; i++) {
		if (conns[i].c == (void *)c && !conns[i].destroyed) return &conns[i];
	}
	if (!create || nconns >= MAXCONN) return NULL;
	memset(&conns[nconns], 0, sizeof conns[0]);
	conns[nconns].c = c;
	qb_ipcs_connection_stats_get(c, &st, 0);
	conns[nconns].who = who_of_pid(st.client_pid);
	return &conns[nconns++];
}
static int live_conns(char who)
{
	int i, n = 0;
	for (i = 0; i < nconns; i++) if (conns[i].who == who && !conns[i].destroyed) n++;
	return n;
}

static int32_t cb_accept(qb_ipcs_connection_t *c, uid_t uid, gid_t gid)
{
	struct conn_rec *r = rec_of(c, 1);
	if (r) r->accept++;
	if (!quiet_cb) OUT("cb accept %c\n", r ? r->who : '?');
	return accept_rc;
}
static void cb_created(qb_ipcs_connection_t *c)
{
	struct conn_rec *r = rec_of(c, 1);
	if (r) r->created++;
	if (!quiet_cb) OUT("cb created %c\n", r ? r->who : '?');
}
static int32_t cb_closed(qb_ipcs_connection_t *c)
{
	struct conn_rec *r = rec_of(c, 1);
	if (r) r->closed++;
	if (!quiet_cb) OUT("cb closed %c\n", r ? r->who : '?');
	return 0;
}
static void cb_destroyed(qb_ipcs_connection_t *c)
{
	struct conn_rec *r = rec_of(c, 1);
	if (!quiet_cb) OUT("cb destroyed %c\n", r ? r->who : '?');
	if (r) r->destroyed++;
}
/* the error code of a send to a dead peer is the kernel's business (EPIPE, ECONNREFUSED,
 * ENOTCONN …): only complete / not complete is compared */
static const char *rcname(ssize_t rc, ssize_t want)
{
	return rc == want ? "ok" : "fail";
}
static int32_t cb_msg(qb_ipcs_connection_t *c, void *data, size_t size)
{
	struct my_req *rq = data;
	struct my_res rs;
	struct conn_rec *r = rec_of(c, 1);
	char line[256];
	int n = 0, i;
	ssize_t rc;

	if (r) r->msgs++;
	if (sh) sh->s_msgs++;
	n += snprintf(line + n, sizeof line - n, "cb msg %c id=%d arg=%d", r ? r->who : '?', rq->hdr.id, rq->arg);
	if (rq->hdr.id == REQ_EVENTS) {
		for (i = 0; i < rq->arg; i++) {
			memset(&rs, 0, sizeof rs);
			rs.hdr.id = EVT_ID;
			rs.hdr.size = sizeof rs;
			rs.arg = i;
			rc = qb_ipcs_event_send(c, &rs, sizeof rs);
			if (rc == sizeof rs && sh) sh->s_events_sent++;
			n += snprintf(line + n, sizeof line - n, " ev=%s", rcname(rc, sizeof rs));
		}
	}
	if (rq->hdr.id != REQ_NORESP) {
		memset(&rs, 0, sizeof rs);
		rs.hdr.id = rq->hdr.id;
		rs.hdr.size = sizeof rs;
		rs.arg = rq->arg;
		rc = qb_ipcs_response_send(c, &rs, sizeof rs);
		if (rc == sizeof rs && sh) sh->s_resp_sent++;
		n += snprintf(line + n, sizeof line - n, " resp=%s", rcname(rc, sizeof rs));
	}
	if (!quiet_cb) OUT("%s\n", line);
	return 0;
}

static int service_start(enum qb_ipc_type type, const char *name)
{
	struct qb_ipcs_service_handlers sh_ = {
		.connection_accept = cb_accept,
		.connection_created = cb_created,
		.msg_process = cb_msg,
		.connection_closed = cb_closed,
		.connection_destroyed = cb_destroyed,
	};
	struct qb_ipcs_poll_handlers ph = {
		.job_add = my_job_add,
		.dispatch_add = my_dispatch_add,
		.dispatch_mod = my_dispatch_mod,
		.dispatch_del = my_dispatch_del,
	};
	if (name) {
		if (name != svc_name) snprintf(svc_name, sizeof svc_name, "%s", name);
	} else {
		snprintf(svc_name, sizeof svc_name, "cr%d_%d", (int)getpid(), ++svc_seq);
	}
	svc = qb_ipcs_create(svc_name, 4, type, &sh_);
	if (!svc) return -1;
	qb_ipcs_poll_handlers_set(svc, &ph);
	qb_ipcs_enforce_buffer_size(svc, MAX_MSG);
	return qb_ipcs_run(svc);
}

/* ------------------------------------------------------------------ residue snapshots */
struct snap {
	int nfds;
	int fds[512];
	char tgt[512][48];
	int files, dirs, maps, regs;
	long heap;
};

/* server-death direction: the client is this process, so the entries of the connection under test are
 * exactly /dev/shm/qb-<server pid>-<this pid>-*.  (Matching on the server's pid alone is not enough on a
 * shared machine: pids are reused, and other programs' dead servers leave entries behind.) */
static pid_t snap_cpid = 0;

static void take_snap(struct snap *s, pid_t srvpid)
{
	DIR *d;
	struct dirent *e;
	char path[PATH_MAX], pfx[64];
	FILE *f;
	s->nfds = 0;
	d = opendir("/proc/self/fd");
	if (d) {
		int dfd = dirfd(d);
		while ((e = readdir(d))) {
			int fd, n;
			if (e->d_name[0] == '.') continue;
			fd = atoi(e->d_name);
			if (fd == dfd || s->nfds >= 512) continue;
			snprintf(path, sizeof path, "/proc/self/fd/%d", fd);
			n = readlink(path, s->tgt[s->nfds], sizeof s->tgt[0] - 1);
			s->tgt[s->nfds][n < 0 ? 0 : n] = 0;
			s->fds[s->nfds++] = fd;
		}
		closedir(d);
	}
	s->files = s->dirs = 0;
	if (snap_cpid) snprintf(pfx, sizeof pfx, "qb-%d-%d-", (int)srvpid, (int)snap_cpid);
	else snprintf(pfx, sizeof pfx, "qb-%d-", (int)srvpid);
	d = opendir("/dev/shm");
	if (d) {
		while ((e = readdir(d))) {
			DIR *d2;
			if (strncmp(e->d_name, pfx, strlen(pfx))) continue;
			snprintf(path, sizeof path, "/dev/shm/%s", e->d_name);
			d2 = opendir(path);
			if (d2) {
				struct dirent *e2;
				s->dirs++;
				while ((e2 = readdir(d2))) if (e2->d_name[0] != '.') s->files++;
				closedir(d2);
			} else {
				s->files++;
			}
		}
		closedir(d);
	}
	s->maps = 0;
	f = fopen("/proc/self/maps", "r");
	if (f) {
		char line[PATH_MAX + 128];
		snprintf(pfx, sizeof pfx, "/dev/shm/qb-%d-", (int)srvpid);
		while (fgets(line, sizeof line, f)) if (strstr(line, pfx)) s->maps++;
		fclose(f);
	}
	s->regs = nreg;
	s->heap = __sanitizer_get_current_allocated_bytes ? (long)__sanitizer_get_current_allocated_bytes() : 0;
}

static int fd_diff(const struct snap *a, const struct snap *b, int verbose)
{
	int i, j, n = 0;
	for (i = 0; i < b->nfds; i++) {
		for (j = 0; j < a->nfds; j++) if (a->fds[j] == b->fds[i]) break;
		if (j == a->nfds) {
			n++;
			if (verbose) printf("# leaked fd %d -> %s\n", b->fds[i], b->tgt[i]);
		}
	}
	for (j = 0; j < a->nfds; j++) {
		for (i = 0; i < b->nfds; i++) if (a->fds[j] == b->fds[i]) break;
		if (i == b->nfds) {
			n++;
			if (verbose) printf("# lost fd %d -> %s\n", a->fds[j], a->tgt[j]);
		}
	}
	return n;
}

static long heap_delta[2];

static void print_residue(const char *tag, const struct snap *a, const struct snap *b, int which)
{
	OUT("%s fds=%d files=%d dirs=%d maps=%d regs=%d\n", tag, fd_diff(a, b, !mute),
	    b->files - a->files, b->dirs - a->dirs, b->maps - a->maps, b->regs - a->regs);
	heap_delta[which] = b->heap - a->heap;
}

static void print_stats(const char *tag)
{
	struct qb_ipcs_stats st;
	qb_ipcs_stats_get(svc, &st, 0);
	OUT("%s active=%u closed=%u\n", tag, st.active_connections, st.closed_connections);
}

/* ------------------------------------------------------------------ client side helpers */
static ssize_t c_sendv_recv(qb_ipcc_connection_t *c, int id, int arg, int tmo, int *out_arg)
{
	struct my_req rq;
	struct my_res rs;
	struct iovec iov;
	ssize_t rc;
	memset(&rq, 0, sizeof rq);
	rq.hdr.id = id; rq.hdr.size = sizeof rq; rq.arg = arg;
	iov.iov_base = &rq; iov.iov_len = sizeof rq;
	memset(&rs, 0, sizeof rs);
	rc = qb_ipcc_sendv_recv(c, &iov, 1, &rs, sizeof rs, tmo);
	if (out_arg) *out_arg = rs.arg;
	return rc;
}
static ssize_t c_send(qb_ipcc_connection_t *c, int id, int arg)
{
	struct my_req rq;
	memset(&rq, 0, sizeof rq);
	rq.hdr.id = id; rq.hdr.size = sizeof rq; rq.arg = arg;
	return qb_ipcc_send(c, &rq, sizeof rq);
}
static ssize_t c_recv(qb_ipcc_connection_t *c, int tmo, int *out_arg)
{
	struct my_res rs;
	ssize_t rc;
	memset(&rs, 0, sizeof rs);
	rc = qb_ipcc_recv(c, &rs, sizeof rs, tmo);
	if (out_arg) *out_arg = rs.arg;
	return rc;
}
static ssize_t c_event_recv(qb_ipcc_connection_t *c, int tmo, int *out_arg)
{
	struct my_res rs;
	ssize_t rc;
	memset(&rs, 0, sizeof rs);
	rc = qb_ipcc_event_recv(c, &rs, sizeof rs, tmo);
	if (out_arg) *out_arg = rs.arg;
	return rc;
}

/* ------------------------------------------------------------------ bystander */
static void bystander_main(int go_rd)
{
	qb_ipcc_connection_t *c;
	int a = 0;
	char ch;
	CR_REAL(int, close, int);
	cr_role = CR_ROLE_NONE;
	c = qb_ipcc_connect(svc_name, MAX_MSG);
	if (!c) { sh->b_phase = -1; _exit(31); }
	if (c_sendv_recv(c, REQ_ECHO, 11, 5000, &a) != sizeof(struct my_res) || a != 11) { sh->b_phase = -2; _exit(32); }
	sh->b_phase = 1;
	if (read(go_rd, &ch, 1) != 1) { sh->b_phase = -3; _exit(33); }
	if (c_sendv_recv(c, REQ_ECHO, 12, 5000, &a) != sizeof(struct my_res) || a != 12) { sh->b_phase = -4; _exit(34); }
	if (c_sendv_recv(c, REQ_EVENTS, 1, 5000, &a) != sizeof(struct my_res) || a != 1) { sh->b_phase = -5; _exit(35); }
	if (c_event_recv(c, 5000, &a) != sizeof(struct my_res) || a != 0) { sh->b_phase = -6; _exit(36); }
	qb_ipcc_disconnect(c);
	sh->b_phase = 2;
	real_close(go_rd);
	_exit(0);
}

/* ------------------------------------------------------------------ victim scripts */
/* A scenario is a string of API letters:
 *   C connect   D disconnect   Q sendv_recv(echo)   E sendv_recv(events 3)   S send(echo)
 *   R recv      V event_recv   N send(noresp) */
static void victim_main(const char *script)
{
	qb_ipcc_connection_t *c = NULL;
	int i, a;
	ssize_t rc = 0;
	cr_role = CR_ROLE_VICTIM;
	if (sh->v_mode != CR_MODE_S) sh->hold = 1;
	sh->v_armed = 1;
	for (i = 0; script[i]; i++) {
		sh->v_api = i + 1;
		switch (script[i]) {
		case 'C': c = qb_ipcc_connect(svc_name, MAX_MSG); rc = c ? 0 : -errno; break;
		case 'D': qb_ipcc_disconnect(c); c = NULL; rc = 0; break;
		case 'Q': rc = c_sendv_recv(c, REQ_ECHO, 100 + i, 5000, &a); break;
		case 'E': rc = c_sendv_recv(c, REQ_EVENTS, 3, 5000, &a); break;
		case 'S': rc = c_send(c, REQ_ECHO, 100 + i); break;
		case 'N': rc = c_send(c, REQ_NORESP, 100 + i); break;
		case 'R': rc = c_recv(c, 5000, &a); break;
		case 'V': rc = c_event_recv(c, 5000, &a); break;
		default: rc = -EINVAL; break;
		}
		if (i < 32) sh->v_rc[i] = (int)rc;
		if (script[i] == 'C' && !c) break;
	}
	sh->v_armed = 0;
	sh->v_api = 0;
	sh->hold = 0;
	sh->v_done = 1;
	_exit(0);
}

/* raw client: connect to the abstract stream socket, send the first `nbytes` bytes of a valid
 * handshake record, die */
static void raw_victim_main(int nbytes)
{
	struct qb_ipc_connection_request rq;
	struct sockaddr_un a;
	int fd, off = 0;
	CR_REAL(int, socket, int, int, int);
	CR_REAL(int, connect, int, const struct sockaddr *, socklen_t);
	CR_REAL(ssize_t, send, int, const void *, size_t, int);
	cr_role = CR_ROLE_NONE;
	if (sh->v_mode != CR_MODE_S) {
		/* R: the server sees nothing before the death */
		int64_t t0 = cr_now_us();
		sh->hold = 1;
		while (!sh->srv_parked && cr_now_us() - t0 < 2000000) cr_real_sleep_us(50);
	}
	fd = real_socket(PF_UNIX, SOCK_STREAM, 0);
	memset(&a, 0, sizeof a);
	a.sun_family = AF_UNIX;
	snprintf(a.sun_path + 1, sizeof a.sun_path - 1, "%s", svc_name);
	if (real_connect(fd, (struct sockaddr *)&a, sizeof(a)) != 0) _exit(41);
	memset(&rq, 0, sizeof rq);
	rq.hdr.id = QB_IPC_MSG_AUTHENTICATE;
	rq.hdr.size = sizeof rq;
	rq.max_msg_size = MAX_MSG;
	if (nbytes > (int)sizeof rq) nbytes = sizeof rq;
	while (off < nbytes) {
		ssize_t n = real_send(fd, (char *)&rq + off, 1, MSG_NOSIGNAL);
		if (n != 1) _exit(42);
		off++;
	}
	sh->v_ncalls = nbytes;
	/* S-like: let the server see the bytes before the death */
	if (sh->v_mode == CR_MODE_S) {
		int64_t t0 = cr_now_us();
		int req = sh->idle_req + 1;
		sh->idle_req = req;
		while (sh->idle_ack != req && cr_now_us() - t0 < 1000000) cr_real_sleep_us(100);
	}
	_exit(17);
}

/* ------------------------------------------------------------------ client-death cases */
static int cond_bystander_ready(void) { return sh->b_phase != 0 || bystander_reaped; }
static int cond_victim_cleaned(void) { return victim_reaped && live_conns('v') == 0; }
static int cond_victim_reaped(void) { return victim_reaped; }
static int cond_bystander_done(void) { return bystander_reaped && live_conns('b') == 0; }

static void print_trace(const char *tag, int n, const unsigned char *tr)
{
	int i;
	OUT("%s %d:", tag, n);
	for (i = 1; i <= n && i < CR_MAXTRACE; i++) OUT(" %s", cr_call_name[tr[i]]);
	OUT("\n");
}

/* kind: 'c' victim dies at its own call k (mode S/R/L); 'g' server kills it at server call k;
 *       'h' raw handshake prefix of k bytes (mode S or R) */
static void client_death_case(char kind, enum qb_ipc_type type, const char *script, int k, int mode, int dry)
{
	struct snap s0, s1, s2, s3;
	int pfd[2];
	char ch = 'g';
	int i;
	CR_REAL(int, close, int);

	memset((void *)sh, 0, sizeof *sh);
	nconns = 0;
	victim_pid = bystander_pid = -1;
	victim_reaped = bystander_reaped = 0;
	cr_role = CR_ROLE_SERVER;
	if (service_start(type, NULL) != 0) { OUT("ERROR service_start\n"); return; }
	take_snap(&s0, my_pid);

	if (pipe(pfd) != 0) { OUT("ERROR pipe\n"); return; }
	bystander_pid = fork();
	if (bystander_pid == 0) {
		real_close(pfd[1]);
		bystander_main(pfd[0]);
	}
	real_close(pfd[0]);
	run_until(cond_bystander_ready, 5000);
	if (sh->b_phase != 1) OUT("ERROR bystander phase %d\n", sh->b_phase);
	take_snap(&s1, my_pid);

	sh->v_mode = mode;
	if (kind == 'c') sh->v_crash_at = dry ? 0 : k;
	if (kind == 'g') { sh->g_kill_at = dry ? 0 : k; sh->g_armed = 1; }
	victim_pid = fork();
	if (victim_pid == 0) {
		real_close(pfd[1]);
		if (kind == 'h') raw_victim_main(k);
		victim_main(script);
	}
	run_until(cond_victim_cleaned, 6000);
	sh->g_armed = 0;
	sh->hold = 0;
	if (run_timed_out) OUT("TIMEOUT waiting for the victim's connections to be destroyed\n");
	if (dry) {
		if (kind == 'c') {
			print_trace("calls", sh->v_ncalls, (const unsigned char *)sh->v_trace);
			OUT("apis");
			for (i = 1; i <= sh->v_ncalls && i < CR_MAXTRACE; i++) {
				if (i == 1 || sh->v_api_of[i] != sh->v_api_of[i - 1]) OUT(" %c@%d", script[sh->v_api_of[i] - 1], i);
			}
			OUT("\n");
			OUT("rcs");
			for (i = 0; script[i] && i < 32; i++) OUT(" %s", sh->v_rc[i] >= 0 ? "ok" : vl_errname(-sh->v_rc[i]));
			OUT("\n");
		} else if (kind == 'g') {
			print_trace("gcalls", sh->g_ncalls, (const unsigned char *)sh->g_trace);
		}
	} else if (kind == 'c') {
		OUT("victim k=%d call=%s api=%c done=%d\n", k,
		       k <= sh->v_ncalls ? cr_call_name[sh->v_trace[k]] : "end",
		       sh->v_api_at_death ? script[sh->v_api_at_death - 1] : '-', sh->v_done);
	} else if (kind == 'g') {
		OUT("gate g=%d call=%s fired=%d\n", k, k <= sh->g_ncalls ? cr_call_name[sh->g_trace[k]] : "end", sh->g_fired);
	} else {
		OUT("handshake bytes=%d\n", k);
	}
	print_stats("stats");
	take_snap(&s2, my_pid);
	print_residue("residue", &s1, &s2, 0);

	/* the bystander must still be served */
	if (write(pfd[1], &ch, 1) != 1) OUT("ERROR go\n");
	run_until(cond_bystander_done, 6000);
	if (run_timed_out) OUT("TIMEOUT waiting for the bystander\n");
	real_close(pfd[1]);
	OUT("bystander phase=%d exit=%d\n", sh->b_phase,
	       bystander_reaped && WIFEXITED(bystander_status) ? WEXITSTATUS(bystander_status) : -1);
	print_stats("final");
	take_snap(&s3, my_pid);
	print_residue("final-residue", &s0, &s3, 1);
	qb_ipcs_destroy(svc);
	svc = NULL;
	if (!victim_reaped && victim_pid > 0) { cr_gate_fire(); }
	if (!bystander_reaped && bystander_pid > 0) {
		int st;
		CR_REAL(int, kill, pid_t, int);
		real_kill(bystander_pid, SIGKILL);
		waitpid(bystander_pid, &st, 0);
	}
	cr_role = CR_ROLE_NONE;
}

/* The heap delta of a case contains one-time allocations of the library (log call sites seen
 * for the first time, growth of the loop's tables).  A real leak repeats: when a delta is not
 * zero the case is run up to two more times (muted) and the smallest delta is reported. */
static void cd_run(char kind, enum qb_ipc_type type, const char *script, int k, int mode, int dry)
{
	long h0, h1;
	int i;
	client_death_case(kind, type, script, k, mode, dry);
	h0 = heap_delta[0]; h1 = heap_delta[1];
	for (i = 0; i < 2 && (h0 != 0 || h1 != 0); i++) {
		mute = 1;
		client_death_case(kind, type, script, k, mode, dry);
		mute = 0;
		if (labs(heap_delta[0]) < labs(h0)) h0 = heap_delta[0];
		if (labs(heap_delta[1]) < labs(h1)) h1 = heap_delta[1];
	}
	printf("heap residue=%ld final=%ld\n", h0, h1);
}

/* ------------------------------------------------------------------ server-death cases */
static void fserver_main(enum qb_ipc_type type)
{
	cr_role = CR_ROLE_FSERVER;
	quiet_cb = 1;
	/* the forked server uses the plain loop */
	if (service_start(type, svc_name) != 0) _exit(51);
	sh->s_ready = 1;
	qb_loop_run(loop);
	_exit(0);
}

/* a disconnect error is any error qb_ipc_us_sock_error_is_disconnected() accepts (which one
 * the kernel picks for a dead peer is not the library's choice) */
static const char *h_rc(ssize_t rc)
{
	static char b[32];
	if (rc >= 0) { snprintf(b, sizeof b, "%zd", rc); return b; }
	if (qb_ipc_us_sock_error_is_disconnected((int)rc)) return "DISC";
	return vl_errname((int)-rc);
}

struct hcall { const char *name; ssize_t rc; int64_t ms; int blocked; };

static void h_begin(int64_t *t0, int *b0) { *t0 = cr_vclock_ms; *b0 = cr_blocked_forever; cr_call_vstart = cr_vclock_ms; }
static void h_report(const char *name, int tmo, ssize_t rc, int64_t t0, int b0, qb_ipcc_connection_t *c)
{
	printf("call %s tmo=%d rc=%s vms=%lld%s conn=%d\n", name, tmo, h_rc(rc), (long long)(cr_vclock_ms - t0),
	       cr_blocked_forever > b0 ? " BLOCKED-FOREVER" : "", c ? c->is_connected : -1);
}

/* `shown` = the timeout of the op line; `tmo` = the one handed to the library (they differ only in
 * dry runs of a wait-for-ever call: with a live, idle server such a call rightly never returns,
 * so the dry run -- whose only purpose is the server's call list -- waits DRY_PATIENCE_MS) */
#define DRY_PATIENCE_MS 500
static void h_call2(qb_ipcc_connection_t *c, const char *api, int tmo, int shown)
{
	int64_t t0; int b0; int a = 0;
	ssize_t rc;
	h_begin(&t0, &b0);
	if (!strcmp(api, "sendv_recv")) rc = c_sendv_recv(c, REQ_ECHO, 7, tmo, &a);
	else if (!strcmp(api, "sendv_recv_ev")) rc = c_sendv_recv(c, REQ_EVENTS, 2, tmo, &a);
	else if (!strcmp(api, "send")) rc = c_send(c, REQ_ECHO, 8);
	else if (!strcmp(api, "send_noresp")) rc = c_send(c, REQ_NORESP, 9);
	else if (!strcmp(api, "recv")) rc = c_recv(c, tmo, &a);
	else if (!strcmp(api, "event_recv")) rc = c_event_recv(c, tmo, &a);
	else if (!strcmp(api, "is_connected")) rc = qb_ipcc_is_connected(c);
	else rc = -EINVAL;
	h_report(api, shown, rc, t0, b0, c);
}
static void h_call(qb_ipcc_connection_t *c, const char *api, int tmo) { h_call2(c, api, tmo, tmo); }

/* sdeath T PRE API TMO S : PRE = preparation letters before arming (E: sendv_recv events 2 so that
 * events are queued, N: send a request that gets no response, -: nothing); then the forked server
 * is armed to die at its S-th call (S=0: SIGKILLed and reaped before the call); then API(TMO);
 * then the "later calls"; then disconnect and the residue check. */
static void server_death_case(enum qb_ipc_type type, const char *pre, const char *api, int tmo, int s, int dry, int direct)
{
	struct snap s0, s1;
	qb_ipcc_connection_t *c;
	int i, a;
	int64_t t0;
	CR_REAL(int, kill, pid_t, int);

	memset((void *)sh, 0, sizeof *sh);
	fserver_pid = -1; fserver_reaped = 0;
	cr_vclock_ms = 0; cr_blocked_forever = 0;
	snprintf(svc_name, sizeof svc_name, "cr%d_%d", (int)getpid(), ++svc_seq);
	take_snap(&s0, 0);
	fserver_pid = fork();
	if (fserver_pid == 0) {
		fserver_main(type);
	}
	t0 = cr_now_us();
	while (!sh->s_ready && cr_now_us() - t0 < 5000000) cr_real_sleep_us(200);
	cr_role = CR_ROLE_HCLIENT;
	c = qb_ipcc_connect(svc_name, MAX_MSG);
	if (!c) { printf("ERROR connect %s\n", vl_errname(errno)); goto out; }
	for (i = 0; pre[i]; i++) {
		ssize_t rc = 0;
		if (pre[i] == 'E') rc = c_sendv_recv(c, REQ_EVENTS, 2, 5000, &a);
		else if (pre[i] == 'Q') rc = c_sendv_recv(c, REQ_ECHO, 1, 5000, &a);
		else if (pre[i] == 'N') rc = c_send(c, REQ_NORESP, 1);
		else if (pre[i] == 'S') rc = c_send(c, REQ_ECHO, 1);
		else continue;
		if (rc < 0) printf("ERROR pre %c %s\n", pre[i], h_rc(rc));
	}
	/* let the server finish what the preparation started */
	cr_real_sleep_us(20000);
	if (s == 0 && !dry) {
		real_kill(fserver_pid, SIGKILL);
		while (!cr_fserver_gone()) cr_real_sleep_us(100);
	} else {
		sh->s_die_at = dry ? 0 : s;
		sh->s_armed = 1;
	}
	cr_vclock_ms = 0;
	cr_idle_killed = 0;
	cr_idle_kill_armed = !dry;
	h_call2(c, api, (dry && tmo < 0) ? DRY_PATIENCE_MS : tmo, tmo);
	cr_idle_kill_armed = 0;
	if (dry) {
		cr_real_sleep_us(20000);
		sh->s_armed = 0;
		print_trace("scalls", sh->s_ncalls, (const unsigned char *)sh->s_trace);
		real_kill(fserver_pid, SIGKILL);
		while (!cr_fserver_gone()) cr_real_sleep_us(100);
	} else {
		printf("server s=%d call=%s dead=%d resp_sent=%d%s\n", s,
		       s > 0 && s <= sh->s_ncalls ? cr_call_name[sh->s_trace[s]] : (s == 0 ? "killed" : "end"),
		       cr_fserver_gone(), sh->s_resp_sent, cr_idle_killed ? " idle-killed" : "");
		if (!cr_fserver_gone()) {
			/* the s-th call was never reached: the call under test completed; kill now */
			real_kill(fserver_pid, SIGKILL);
			while (!cr_fserver_gone()) cr_real_sleep_us(100);
		}
	}
	/* later calls (direct: none, the client's next call is qb_ipcc_disconnect) */
	if (!direct) {
		h_call(c, "is_connected", 0);
		h_call(c, "send", 0);
		h_call(c, "sendv_recv", -1);
		h_call(c, "sendv_recv", 3000);
		h_call(c, "event_recv", -1);
		h_call(c, "event_recv", 0);
		h_call(c, "recv", 0);
		h_call(c, "recv", 700);
		h_call(c, "recv", -1);
	}
	{
		int64_t v0 = cr_vclock_ms;
		qb_ipcc_disconnect(c);
		printf("call disconnect vms=%lld\n", (long long)(cr_vclock_ms - v0));
	}
out:
	cr_role = CR_ROLE_NONE;
	if (!cr_fserver_gone()) {
		real_kill(fserver_pid, SIGKILL);
		while (!cr_fserver_gone()) cr_real_sleep_us(100);
	}
	snap_cpid = my_pid;
	take_snap(&s1, fserver_pid);
	snap_cpid = 0;
	printf("residue fds=%d files=%d dirs=%d maps=%d\n", fd_diff(&s0, &s1, 1), s1.files, s1.dirs, s1.maps);
	/* never leave files behind, whatever the verdict */
	{
		char cmd[128];
		snprintf(cmd, sizeof cmd, "rm -rf /dev/shm/qb-%d-%d-*", (int)fserver_pid, (int)my_pid);
		if (s1.files || s1.dirs) (void)system(cmd);
	}
}

/* sidle T PRE REAP CALLS : the server dies while the client is IDLE (not inside any library call).
 * PRE = preparation letters (E: sendv_recv answered with 2 events, which stay queued; Q: one round trip;
 * S: send(echo), the response stays queued; N: send(request without response); H: from here on the
 * server is stopped (SIGSTOP), so that what the client sends stays queued; -: nothing).
 * Then the forked server is SIGKILLed.  REAP = 0: reaped before the client's next call; 1..4: still a
 * zombie (kill(pid, 0) succeeds), reaped during the REAP-th nanosleep of qb_ipcc_disconnect; n: a zombie
 * until qb_ipcc_disconnect has returned.  CALLS = the client's calls after the death, in order:
 * D disconnect (last), I is_connected, S send, Q sendv_recv(-1), V event_recv(0), R recv(0), W event_recv(-1). */
static void server_idle_death_case(enum qb_ipc_type type, const char *pre, const char *reap_s, const char *calls)
{
	struct snap s0, s1;
	qb_ipcc_connection_t *c;
	int i, a, stopped = 0, disconnected = 0;
	int late = (reap_s[0] == 'n') ? -1 : atoi(reap_s);
	int64_t t0;
	siginfo_t si;
	CR_REAL(int, kill, pid_t, int);

	memset((void *)sh, 0, sizeof *sh);
	fserver_pid = -1; fserver_reaped = 0; fserver_zombie_hold = 0;
	cr_late_reap_at = 0; cr_late_sleeps = 0;
	cr_vclock_ms = 0; cr_blocked_forever = 0;
	snprintf(svc_name, sizeof svc_name, "cr%d_%d", (int)getpid(), ++svc_seq);
	take_snap(&s0, 0);
	fserver_pid = fork();
	if (fserver_pid == 0) {
		fserver_main(type);
	}
	t0 = cr_now_us();
	while (!sh->s_ready && cr_now_us() - t0 < 5000000) cr_real_sleep_us(200);
	cr_role = CR_ROLE_HCLIENT;
	c = qb_ipcc_connect(svc_name, MAX_MSG);
	if (!c) { printf("ERROR connect %s\n", vl_errname(errno)); goto out; }
	for (i = 0; pre[i]; i++) {
		ssize_t rc = 0;
		if (pre[i] == 'E') rc = c_sendv_recv(c, REQ_EVENTS, 2, 5000, &a);
		else if (pre[i] == 'Q') rc = c_sendv_recv(c, REQ_ECHO, 1, 5000, &a);
		else if (pre[i] == 'N') rc = c_send(c, REQ_NORESP, 1);
		else if (pre[i] == 'S') rc = c_send(c, REQ_ECHO, 1);
		else if (pre[i] == 'H') {
			cr_real_sleep_us(20000);
			real_kill(fserver_pid, SIGSTOP);
			stopped = 1;
			if (waitid(P_PID, fserver_pid, &si, WSTOPPED | WNOWAIT) != 0) printf("ERROR waitid stop\n");
		}
		else continue;
		if (rc < 0) printf("ERROR pre %c %s\n", pre[i], h_rc(rc));
	}
	/* let the server finish what the preparation started */
	if (!stopped) cr_real_sleep_us(20000);
	printf("queues msgs_seen=%d resp_sent=%d events_sent=%d\n", sh->s_msgs, sh->s_resp_sent, sh->s_events_sent);
	/* the death, while the client is idle */
	fserver_zombie_hold = 1;
	real_kill(fserver_pid, SIGKILL);
	memset(&si, 0, sizeof si);
	if (waitid(P_PID, fserver_pid, &si, WEXITED | WNOWAIT) != 0) printf("ERROR waitid\n");
	if (late == 0) fserver_reap_now();
	printf("server idle-killed reap=%s zombie=%d\n", reap_s, !fserver_reaped);
	cr_vclock_ms = 0;
	for (i = 0; calls[i] && !disconnected; i++) {
		switch (calls[i]) {
		case 'I': h_call(c, "is_connected", 0); break;
		case 'S': h_call(c, "send", 0); break;
		case 'Q': h_call(c, "sendv_recv", -1); break;
		case 'V': h_call(c, "event_recv", 0); break;
		case 'W': h_call(c, "event_recv", -1); break;
		case 'R': h_call(c, "recv", 0); break;
		case 'D': {
			int64_t v0 = cr_vclock_ms;
			int b0 = cr_blocked_forever;
			cr_late_sleeps = 0;
			cr_late_reap_at = late > 0 ? late : 0;
			qb_ipcc_disconnect(c);
			cr_late_reap_at = 0;
			printf("call disconnect vms=%lld%s\n", (long long)(cr_vclock_ms - v0),
			       cr_blocked_forever > b0 ? " BLOCKED-FOREVER" : "");
			disconnected = 1;
			break;
		}
		default: printf("bad-op\n"); break;
		}
	}
	if (!disconnected) printf("ERROR script without D\n");
out:
	cr_role = CR_ROLE_NONE;
	if (fserver_pid > 0 && !fserver_reaped) {
		real_kill(fserver_pid, SIGKILL);
		fserver_reap_now();
	}
	snap_cpid = my_pid;
	take_snap(&s1, fserver_pid);
	snap_cpid = 0;
	printf("residue fds=%d files=%d dirs=%d maps=%d\n", fd_diff(&s0, &s1, 1), s1.files, s1.dirs, s1.maps);
	/* never leave files behind, whatever the verdict */
	{
		char cmd[128];
		snprintf(cmd, sizeof cmd, "rm -rf /dev/shm/qb-%d-%d-*", (int)fserver_pid, (int)my_pid);
		if (s1.files || s1.dirs) (void)system(cmd);
	}
}

/* ------------------------------------------------------------------ main */
static enum qb_ipc_type parse_type(const char *s)
{
	return !strcmp(s, "shm") ? QB_IPC_SHM : QB_IPC_SOCKET;
}
static int parse_mode(const char *s)
{
	return s[0] == 'R' ? CR_MODE_R : s[0] == 'L' ? CR_MODE_L : CR_MODE_S;
}

int main(int argc, char **argv)
{
	char *tok[VL_MAXTOK];
	int nt;
	VL_INIT();
	signal(SIGPIPE, SIG_IGN);
	my_pid = getpid();
	qb_log_init("ipc_crash", LOG_USER, LOG_EMERG);
	qb_log_ctl(QB_LOG_SYSLOG, QB_LOG_CONF_ENABLED, QB_FALSE);
	sh = mmap(NULL, sizeof *sh, PROT_READ | PROT_WRITE, MAP_SHARED | MAP_ANONYMOUS, -1, 0);
	if (sh == MAP_FAILED) { printf("ERROR mmap\n"); return 2; }
	loop = qb_loop_create();
	while ((nt = vl_read(tok)) >= 0) {
		if (!strcmp(tok[0], "case")) {
			printf("case %s\n", nt > 1 ? tok[1] : "");
		} else if (!strcmp(tok[0], "cdry") && nt >= 4) {
			/* cdry T SCRIPT MODE */
			cd_run('c', parse_type(tok[1]), tok[2], 0, parse_mode(tok[3]), 1);
		} else if (!strcmp(tok[0], "cdeath") && nt >= 5) {
			/* cdeath T SCRIPT MODE K */
			cd_run('c', parse_type(tok[1]), tok[2], atoi(tok[4]), parse_mode(tok[3]), 0);
		} else if (!strcmp(tok[0], "gdry") && nt >= 3) {
			cd_run('g', parse_type(tok[1]), tok[2], 0, CR_MODE_S, 1);
		} else if (!strcmp(tok[0], "gdeath") && nt >= 4) {
			cd_run('g', parse_type(tok[1]), tok[2], atoi(tok[3]), CR_MODE_S, 0);
		} else if (!strcmp(tok[0], "hs") && nt >= 4) {
			/* hs T MODE NBYTES */
			cd_run('h', parse_type(tok[1]), "", atoi(tok[3]), parse_mode(tok[2]), 0);
		} else if (!strcmp(tok[0], "sdry") && nt >= 5) {
			/* sdry T PRE API TMO */
			server_death_case(parse_type(tok[1]), tok[2], tok[3], atoi(tok[4]), 0, 1, 0);
		} else if (!strcmp(tok[0], "sdeath") && nt >= 6) {
			/* sdeath T PRE API TMO S [D]   (D: no later calls, straight to qb_ipcc_disconnect) */
			server_death_case(parse_type(tok[1]), tok[2], tok[3], atoi(tok[4]), atoi(tok[5]), 0, nt >= 7 && tok[6][0] == 'D');
		} else if (!strcmp(tok[0], "sidle") && nt >= 5) {
			/* sidle T PRE REAP CALLS */
			server_idle_death_case(parse_type(tok[1]), tok[2], tok[3], tok[4]);
		} else {
			printf("bad-op\n");
		}
	}
	{
		int i;
		printf("# faults:");
		for (i = 1; i < CR_NCALLS; i++) if (cr_fault[i]) printf(" %s=%d", cr_call_name[i], cr_fault[i]);
		printf("\n");
	}
	return 0;
}
