/* C03 crash harness: page shared between the harness process and its forked children. */
#ifndef CR_SHARED_H
#define CR_SHARED_H
#include <stdint.h>
#include <sys/types.h>

#define CR_MAXTRACE 1024

/* ids of the library-visible calls (the crash points are the boundaries of these calls) */
#define CR_CALLS(X) \
	X(socket) X(connect) X(bind) X(accept) X(fcntl) X(setsockopt) X(getsockopt) \
	X(send) X(recv) X(recvmsg) X(sendmsg) X(writev) X(poll) X(open) X(openat) X(ftruncate) \
	X(posix_fallocate) X(mmap) X(munmap) X(close) X(shutdown) X(unlink) X(unlinkat) \
	X(rmdir) X(mkdtemp) X(chmod) X(chown) X(truncate) X(sem_init) X(sem_destroy) \
	X(sem_post) X(sem_wait) X(sem_trywait) X(sem_timedwait) X(sem_getvalue) X(kill) \
	X(nanosleep) X(usleep) X(getsockname) X(sigaction)

enum cr_call_id {
	CR_none = 0,
#define X(n) CR_##n,
	CR_CALLS(X)
#undef X
	CR_NCALLS
};

static const char *cr_call_name[] = {
	"none",
#define X(n) #n,
	CR_CALLS(X)
#undef X
};

enum cr_mode { CR_MODE_S = 0, CR_MODE_R = 1, CR_MODE_L = 2 };

struct cr_shared {
	/* victim (client that dies) */
	volatile int v_armed;
	volatile int v_ncalls;          /* library-visible calls made so far by the victim */
	volatile int v_crash_at;        /* die immediately before call number v_crash_at (0 = never) */
	volatile int v_mode;            /* enum cr_mode */
	volatile int v_api;             /* index of the API call the victim is in */
	volatile int v_done;            /* victim finished its script normally */
	volatile int v_api_at_death;
	unsigned char v_trace[CR_MAXTRACE];
	unsigned char v_api_of[CR_MAXTRACE];
	int v_rc[32];                   /* return codes of the victim's API calls (dry runs) */

	/* schedule control */
	volatile int hold;              /* server must not look at new events */
	volatile int srv_parked;        /* server is parked because of hold */
	volatile int srv_blocked;       /* server sits in a blocking poll(-1)/sem_wait inside a handler */
	volatile int idle_req, idle_ack;

	/* server-side gate: kill the victim at the server's g-th call (G mode) */
	volatile int g_armed;
	volatile int g_ncalls;
	volatile int g_kill_at;
	volatile int g_fired;
	unsigned char g_trace[CR_MAXTRACE];

	/* bystander */
	volatile int b_ready;
	volatile int b_phase;           /* set by bystander: 1 connected+echo ok, 2 second phase ok, <0 failure step */

	/* server death direction: forked server dies at its s-th call after arming */
	volatile int s_armed;
	volatile int s_ncalls;
	volatile int s_die_at;
	unsigned char s_trace[CR_MAXTRACE];
	volatile int s_ready;
	volatile int s_msgs;            /* requests seen by the forked server */
	volatile int s_resp_sent;       /* responses sent completely by the forked server */
	volatile int s_events_sent;
};

#endif
