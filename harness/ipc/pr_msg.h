/* Message content shared by the C02/C05 harnesses: a message is fully determined by
 * (seq, len): id field = seq, size field = len, every other byte = pr_fill(seq, i).
 * The same formula is implemented in tools/ipcgen.py (oracle) and in
 * lean/QbVerif/Model/Ipc.lean (acceptor) -- keep the three in sync. */
#ifndef PR_MSG_H
#define PR_MSG_H
#include <stdint.h>
#include <stddef.h>
#include <string.h>

#define PR_SIZE_OFF 8   /* offsetof(struct qb_ipc_request_header, size); checked at start-up */

static inline unsigned char pr_fill(uint32_t seq, size_t i)
{
	if (seq % 5 == 3) return 0xA1;	/* words equal to the ring's chunk magic */
	return (unsigned char)((seq * 131u + (uint32_t)i * 7u + (uint32_t)(i >> 8) * 13u) & 0xffu);
}

static inline void pr_build(unsigned char *b, uint32_t seq, size_t len)
{
	size_t i;
	for (i = 0; i < len; i++) b[i] = pr_fill(seq, i);
	if (len >= 4) { b[0] = seq & 0xff; b[1] = (seq >> 8) & 0xff; b[2] = (seq >> 16) & 0xff; b[3] = (seq >> 24) & 0xff; }
	if (len >= PR_SIZE_OFF + 4) {
		uint32_t l = (uint32_t)len;
		b[PR_SIZE_OFF] = l & 0xff; b[PR_SIZE_OFF+1] = (l >> 8) & 0xff;
		b[PR_SIZE_OFF+2] = (l >> 16) & 0xff; b[PR_SIZE_OFF+3] = (l >> 24) & 0xff;
	}
}

static inline uint32_t pr_seq_of(const unsigned char *b, size_t len)
{
	if (len < 4) return 0xffffffffu;
	return (uint32_t)b[0] | ((uint32_t)b[1] << 8) | ((uint32_t)b[2] << 16) | ((uint32_t)b[3] << 24);
}

/* Adler-32 style checksum over the received bytes */
static inline uint32_t pr_ck(const unsigned char *b, size_t len)
{
	uint32_t a = 1, s = 0;
	size_t i;
	for (i = 0; i < len; i++) { a = (a + b[i]) % 65521u; s = (s + a) % 65521u; }
	return (s << 16) | a;
}
#endif
