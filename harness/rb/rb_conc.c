/* C01: writer and reader threads on ONE real ring buffer under a token-passing scheduler.
 *
 * The real lib/ringbuffer.c (ASan build of the current tree, -DCLUSTERLABS_LIBQB_VERIF) calls
 * qb_verif_point(id, rb) between its accesses to the shared words (lib/verif_hooks.h).  Here
 * that function parks the calling thread and hands control to the scheduler (main thread),
 * which runs the schedule string also fed to the Lean model (`qb_ringconc`, same line
 * protocol, see lean/QbVerif/Driver/RingConc.lean): one character = one thread runs from the
 * point it is parked at to its next point = one model step.  After every step the scheduler
 * prints the shared state; the model's output must be identical.
 *
 * Own schedule points: 0 = before each API call of a thread's program (and: finished),
 * 100 = writer's word-wise copy loop (alloc / copy / commit), 101 = reader's copy-out after peek.
 */
#include "os_base.h"
#include <pthread.h>
#include <semaphore.h>
#include <qb/qbrb.h>
#include "ringbuffer_int.h"
#include "verif_hooks.h"
#include "lineio.h"

#define MAXOPS 64

struct op {
	int kind;		/* 'w' 'f' | 'r' 'p' 'P' */
	unsigned char *data;	/* writer payload */
	size_t len;		/* payload length | read capacity */
};

struct thr {
	pthread_t th;
	int started;
	int finished;
	int point;		/* id of the point the thread is parked at */
	struct op ops[MAXOPS];
	int nops;
	char *result;		/* result line of the call completed during the last step */
	int who;		/* 'W' or 'R' */
};

static qb_ringbuffer_t *rb = NULL;
static int serial = 0;
static struct thr T[2];		/* 0 = writer, 1 = reader */
static pthread_mutex_t mu = PTHREAD_MUTEX_INITIALIZER;
static pthread_cond_t cv = PTHREAD_COND_INITIALIZER;
static int turn = -1;		/* -1 scheduler, 0 writer, 1 reader */
static volatile int free_run = 0;
static __thread int my_idx = -1;
static unsigned char *rbuf = NULL;
static size_t rbuf_cap = 0;

static void park(int id)
{
	struct thr *t = &T[my_idx];
	pthread_mutex_lock(&mu);
	t->point = id;
	turn = -1;
	pthread_cond_broadcast(&cv);
	while (turn != my_idx && !free_run) pthread_cond_wait(&cv, &mu);
	pthread_mutex_unlock(&mu);
}

void qb_verif_point(int id, const void *obj)
{
	if (my_idx < 0 || free_run || obj != (const void *)rb) return;
	park(id);
}

static void set_result(struct thr *t, const char *fmt, ssize_t n, const void *bytes)
{
	/* "<who> <n> <hex>" | "<who> <n>" | "<who> <text>" */
	size_t cap = 64 + (bytes && n > 0 ? 2 * (size_t)n : 0);
	char *s = malloc(cap), *p;
	ssize_t i;
	if (bytes) {
		p = s + sprintf(s, "%c %zd ", t->who, n);
		if (n == 0) { *p++ = '-'; *p = 0; }
		for (i = 0; i < n; i++) p += sprintf(p, "%02x", ((const unsigned char *)bytes)[i]);
	} else if (fmt) {
		sprintf(s, "%c %s", t->who, fmt);
	} else {
		sprintf(s, "%c %zd", t->who, n);
	}
	free(t->result);
	t->result = s;
}

static void *writer_main(void *arg)
{
	struct thr *t = arg;
	int k;
	my_idx = 0;
	pthread_mutex_lock(&mu);
	while (turn != my_idx && !free_run) pthread_cond_wait(&cv, &mu);
	pthread_mutex_unlock(&mu);
	for (k = 0; k < t->nops; k++) {
		struct op *o = &t->ops[k];
		if (k > 0) qb_verif_point(0, rb);
		if (o->kind == 'w') {
			ssize_t r = qb_rb_chunk_write(rb, o->data, o->len);
			if (r < 0) set_result(t, vl_errname((int)r), 0, NULL);
			else set_result(t, NULL, r, NULL);
		} else {
			char *dest = qb_rb_chunk_alloc(rb, o->len);
			if (dest == NULL) {
				set_result(t, vl_errname(errno), 0, NULL);
			} else {
				size_t j = 0;
				int32_t rc;
				for (;;) {
					size_t n;
					qb_verif_point(100, rb);
					if (j >= o->len) break;
					n = o->len - j < 4 ? o->len - j : 4;
					memcpy(dest + j, o->data + j, n);
					j += n;
				}
				rc = qb_rb_chunk_commit(rb, o->len);
				if (rc < 0) set_result(t, vl_errname(rc), 0, NULL);
				else set_result(t, NULL, (ssize_t)o->len, NULL);
			}
		}
	}
	pthread_mutex_lock(&mu);
	t->finished = 1;
	t->point = 0;
	turn = -1;
	pthread_cond_broadcast(&cv);
	pthread_mutex_unlock(&mu);
	return NULL;
}

static void *reader_main(void *arg)
{
	struct thr *t = arg;
	int k;
	my_idx = 1;
	pthread_mutex_lock(&mu);
	while (turn != my_idx && !free_run) pthread_cond_wait(&cv, &mu);
	pthread_mutex_unlock(&mu);
	for (k = 0; k < t->nops; k++) {
		struct op *o = &t->ops[k];
		if (k > 0) qb_verif_point(0, rb);
		if (o->kind == 'r') {
			size_t cap = o->len;
			unsigned char *b = malloc(cap ? cap : 1);
			ssize_t r = qb_rb_chunk_read(rb, b, cap, 0);
			if (r < 0) set_result(t, vl_errname((int)r), 0, NULL);
			else set_result(t, NULL, r, b);
			free(b);
		} else {
			void *ptr = NULL;
			ssize_t n = qb_rb_chunk_peek(rb, &ptr, 0);
			if (n < 0) {
				set_result(t, vl_errname((int)n), 0, NULL);
			} else if (n == 0 && ptr == NULL) {
				set_result(t, "timeout", 0, NULL);
			} else {
				unsigned char *b = malloc(n ? n : 1);
				if (o->kind == 'p') {
					qb_verif_point(101, rb);
					memcpy(b, ptr, n);
				} else {
					size_t j = 0;
					for (;;) {
						size_t m;
						qb_verif_point(101, rb);
						if (j >= (size_t)n) break;
						m = (size_t)n - j < 4 ? (size_t)n - j : 4;
						memcpy(b + j, (char *)ptr + j, m);
						j += m;
					}
				}
				qb_rb_chunk_reclaim(rb);
				set_result(t, NULL, n, b);
				free(b);
			}
		}
	}
	pthread_mutex_lock(&mu);
	t->finished = 1;
	t->point = 0;
	turn = -1;
	pthread_cond_broadcast(&cv);
	pthread_mutex_unlock(&mu);
	return NULL;
}

static void threads_start(void)
{
	int i;
	for (i = 0; i < 2; i++) {
		if (T[i].started) continue;
		T[i].finished = (T[i].nops == 0);
		T[i].point = 0;
		T[i].who = i == 0 ? 'W' : 'R';
		if (T[i].nops > 0) {
			pthread_create(&T[i].th, NULL, i == 0 ? writer_main : reader_main, &T[i]);
			T[i].started = 1;
		}
	}
}

static void threads_stop(void)
{
	int i, k;
	pthread_mutex_lock(&mu);
	free_run = 1;
	pthread_cond_broadcast(&cv);
	pthread_mutex_unlock(&mu);
	for (i = 0; i < 2; i++) {
		if (T[i].started) pthread_join(T[i].th, NULL);
		for (k = 0; k < T[i].nops; k++) free(T[i].ops[k].data);
		free(T[i].result);
		memset(&T[i], 0, sizeof T[i]);
	}
	free_run = 0;
	turn = -1;
}

static void rb_drop(void)
{
	threads_stop();
	if (rb) { qb_rb_close(rb); rb = NULL; }
}

static void print_sem(void)
{
	if (rb->flags & QB_RB_FLAG_NO_SEMAPHORE) {
		printf("-");
	} else {
		int v = -1;
		sem_getvalue(&rb->shared_hdr->posix_sem, &v);
		printf("%d", v);
	}
}

static void snapshot(int ch, int point)
{
	uint32_t W = rb->shared_hdr->word_size;
	uint32_t rp = rb->shared_hdr->read_pt, wp = rb->shared_hdr->write_pt;
	printf("%c %d %u %u %08x %08x %08x %08x ", ch, point, rp, wp,
	       rb->shared_data[rp % W], rb->shared_data[(rp + 1) % W],
	       rb->shared_data[wp % W], rb->shared_data[(wp + 1) % W]);
	print_sem();
	printf("\n");
}

static void do_step(int ch)
{
	int i = (ch == 'w') ? 0 : 1;
	struct thr *t = &T[i];
	if (!t->finished) {
		pthread_mutex_lock(&mu);
		turn = i;
		pthread_cond_broadcast(&cv);
		while (turn != -1) pthread_cond_wait(&cv, &mu);
		pthread_mutex_unlock(&mu);
	}
	snapshot(ch, t->point);
	if (t->result) {
		printf("%s\n", t->result);
		free(t->result);
		t->result = NULL;
	}
}

static int parse_prog(struct thr *t, char **tok, int nt, int writer)
{
	int k;
	t->nops = 0;
	for (k = 1; k < nt && t->nops < MAXOPS; k++) {
		struct op *o = &t->ops[t->nops];
		char *s = tok[k];
		memset(o, 0, sizeof *o);
		if (writer) {
			if ((s[0] != 'w' && s[0] != 'f') || s[1] != ':') return -1;
			o->kind = s[0];
			o->data = vl_unhex(s + 2, &o->len);
			if (!o->data) return -1;
		} else if (s[0] == 'r' && s[1] == ':') {
			o->kind = 'r';
			o->len = strtoull(s + 2, NULL, 10);
		} else if ((s[0] == 'p' || s[0] == 'P') && s[1] == 0) {
			o->kind = s[0];
		} else {
			return -1;
		}
		t->nops++;
	}
	return 0;
}

int main(void)
{
	static char *t[4096];
	int nt;
	VL_INIT();
	/* long schedule lines: lineio's tokenizer limit is VL_MAXTOK tokens, enough (programs ≤ 63 ops) */
	while ((nt = vl_read(t)) >= 0) {
		if (strcmp(t[0], "case") == 0) {
			rb_drop();
			printf("case %s\n", nt > 1 ? t[1] : "");
		} else if (strcmp(t[0], "open") == 0 && nt >= 3) {
			char name[64];
			size_t S = strtoull(t[1], NULL, 10);
			uint32_t fl = strtoul(t[2], NULL, 10);
			rb_drop();
			snprintf(name, sizeof name, "vrfc-%d-%d", (int)getpid(), serial++);
			rb = qb_rb_open(name, S, fl | QB_RB_FLAG_CREATE, 0);
			if (!rb) printf("%s\n", vl_errname(errno));
			else {
				printf("ok %u\n", rb->shared_hdr->word_size);
				rbuf_cap = 4 * (size_t)rb->shared_hdr->word_size;
				rbuf = realloc(rbuf, rbuf_cap);
			}
		} else if (!rb) {
			printf("bad-op\n");
		} else if (strcmp(t[0], "progw") == 0 && !T[0].started && !T[1].started) {
			printf(parse_prog(&T[0], t, nt, 1) == 0 ? "ok\n" : "bad-op\n");
		} else if (strcmp(t[0], "progr") == 0 && !T[0].started && !T[1].started) {
			printf(parse_prog(&T[1], t, nt, 0) == 0 ? "ok\n" : "bad-op\n");
		} else if (strcmp(t[0], "sched") == 0 && nt == 2) {
			const char *s;
			threads_start();
			for (s = t[1]; *s; s++) do_step(*s == 'w' ? 'w' : 'r');
		} else if (strcmp(t[0], "drain") == 0) {
			int busy = 0, i;
			for (i = 0; i < 2; i++) if (T[i].started && !T[i].finished && T[i].point != 0) busy = 1;
			if (busy) {
				printf("drain-notquiescent\n");
			} else {
				uint32_t W = rb->shared_hdr->word_size, h = 2166136261u;
				size_t k;
				const unsigned char *m = (const unsigned char *)rb->shared_data;
				for (;;) {
					ssize_t r = qb_rb_chunk_read(rb, rbuf, rbuf_cap, 0);
					if (r < 0) { printf("drain-end %s\n", vl_errname((int)r)); break; }
					printf("drain %zd ", r); vl_puthex(rbuf, r); printf("\n");
				}
				for (k = 0; k < 4 * (size_t)W; k++) h = (h ^ m[k]) * 16777619u;
				printf("final %u %u ", rb->shared_hdr->read_pt, rb->shared_hdr->write_pt);
				print_sem();
				printf(" %08x\n", h);
			}
		} else {
			printf("bad-op\n");
		}
	}
	rb_drop();
	free(rbuf);
	return 0;
}
