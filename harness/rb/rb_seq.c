/* Sequential ring-buffer harness: drives the real lib/ringbuffer.c (linked from the
 * ASan build of /repo/lib) with the op lines of DESIGN.md appendix A, driver `ring`. */
#include "os_base.h"
#include <qb/qbrb.h>
#include "ringbuffer_int.h"
#include "lineio.h"

static qb_ringbuffer_t *rb = NULL;
static int serial = 0;
/* two-phase write: pointer and length of the pending qb_rb_chunk_alloc, if any */
static void *pend_ptr = NULL;
static size_t pend_len = 0;
static int pending = 0;

static void rb_drop(void)
{
	if (rb) { qb_rb_close(rb); rb = NULL; }
	pending = 0;
}

int main(void)
{
	char *t[VL_MAXTOK];
	int nt;
	VL_INIT();
	while ((nt = vl_read(t)) >= 0) {
		if (strcmp(t[0], "case") == 0) {
			rb_drop();
			printf("case %s\n", nt > 1 ? t[1] : "");
		} else if (strcmp(t[0], "open") == 0 && nt >= 3) {
			char name[64];
			size_t S = strtoull(t[1], NULL, 10);
			uint32_t fl = strtoul(t[2], NULL, 10);
			rb_drop();
			snprintf(name, sizeof name, "vrf-%d-%d", (int)getpid(), serial++);
			rb = qb_rb_open(name, S, fl | QB_RB_FLAG_CREATE, 0);
			if (!rb) printf("%s\n", vl_errname(errno));
			else printf("ok %u\n", rb->shared_hdr->word_size);
		} else if (!rb) {
			printf("bad-op\n");
		} else if (strcmp(t[0], "alloc") == 0 && nt == 2) {
			/* a second alloc while one is pending is not executed (ill-formed use) */
			if (pending) { printf("bad-op\n"); continue; }
			size_t n = strtoull(t[1], NULL, 10);
			errno = 0;
			void *p = qb_rb_chunk_alloc(rb, n);
			if (!p) printf("%s\n", vl_errname(errno));
			else { pend_ptr = p; pend_len = n; pending = 1; printf("ok\n"); }
		} else if (strcmp(t[0], "commit") == 0 && nt == 2) {
			size_t len; unsigned char *b = vl_unhex(t[1], &len);
			/* commit without a pending alloc, or of more than was allocated: not executed */
			if (!pending || len > pend_len) { printf("bad-op\n"); free(b); continue; }
			memcpy(pend_ptr, b, len);
			int32_t rc = qb_rb_chunk_commit(rb, len);
			pending = 0;
			if (rc < 0) printf("%s\n", vl_errname((int)rc)); else printf("%d\n", (int)rc);
			free(b);
		} else if (strcmp(t[0], "write") == 0 && nt == 2 && pending) {
			/* write while an allocation is pending: not executed (ill-formed use) */
			printf("bad-op\n");
		} else if (strcmp(t[0], "write") == 0 && nt == 2) {
			size_t len; unsigned char *b = vl_unhex(t[1], &len);
			ssize_t r = qb_rb_chunk_write(rb, b, len);
			if (r < 0) printf("%s\n", vl_errname((int)r)); else printf("%zd\n", r);
			free(b);
		} else if (strcmp(t[0], "read") == 0 && nt == 2) {
			size_t cap = strtoull(t[1], NULL, 10);
			unsigned char *b = malloc(cap ? cap : 1);
			ssize_t r = qb_rb_chunk_read(rb, b, cap, 0);
			if (r < 0) printf("%s\n", vl_errname((int)r));
			else { printf("%zd ", r); vl_puthex(b, r); printf("\n"); }
			free(b);
		} else if (strcmp(t[0], "peek") == 0) {
			void *p = NULL;
			int tmo = 0;
			ssize_t r;
			/* distinguish the 0 returned on a semaphore time-out from an empty chunk */
			if (rb->notifier.q_len_fn && rb->notifier.q_len_fn(rb->notifier.instance) == 0) tmo = 1;
			r = qb_rb_chunk_peek(rb, &p, 0);
			if (r < 0) printf("%s\n", vl_errname((int)r));
			else if (tmo && r == 0 && p == NULL) printf("timeout\n");
			else { printf("%zd ", r); vl_puthex(p, r); printf("\n"); }
		} else if (strcmp(t[0], "reclaim") == 0) {
			qb_rb_chunk_reclaim(rb);
			printf("ok\n");
		} else if (strcmp(t[0], "free") == 0) {
			printf("%zd\n", qb_rb_space_free(rb));
		} else if (strcmp(t[0], "used") == 0) {
			printf("%zd\n", qb_rb_space_used(rb));
		} else if (strcmp(t[0], "ptrs") == 0) {
			printf("%u %u\n", rb->shared_hdr->read_pt, rb->shared_hdr->write_pt);
		} else if (strcmp(t[0], "sem") == 0) {
			if (rb->notifier.q_len_fn) printf("%zd\n", rb->notifier.q_len_fn(rb->notifier.instance));
			else printf("none\n");
		} else {
			printf("bad-op\n");
		}
	}
	rb_drop();
	return 0;
}
