/* Handle-database harness (property C20): drives the real lib/hdb.c (linked from the ASan
 * build of /repo/lib) with the op lines of DESIGN.md appendix A, driver `hdb`.
 * See lean/QbVerif/Driver/Hdb.lean for the protocol.
 *
 * random() is defined HERE: the definition in the executable takes precedence over libc's for
 * the statically linked libqb objects, so qb_hdb_handle_create draws exactly the values given
 * on the `create` line (calls beyond the list repeat the last value; no value = 0).
 * The destructor prints `dtor K`, K being the number this harness stored in the instance. */
#include "os_base.h"
#include <qb/qbhdb.h>
#include "lineio.h"

#define MAXDRAW VL_MAXTOK
static long draws[MAXDRAW];
static int ndraws = 0;
static int drawpos = 0;
static long random_calls = 0;

long random(void)
{
	long v;
	random_calls++;
	if (ndraws == 0) return 0;
	v = draws[drawpos < ndraws ? drawpos : ndraws - 1];
	drawpos++;
	return v;
}

struct obj {
	int64_t id;
};

static struct qb_hdb hdb;
static int hdb_live = 0;
static qb_handle_t *issued = NULL;
static size_t n_issued = 0, cap_issued = 0;

static void dtor(void *p)
{
	if (p == NULL) printf("dtor null\n");
	else printf("dtor %lld\n", (long long)((struct obj *)p)->id);
}

static void reset(void)
{
	if (hdb_live) {
		/* qb_hdb_destroy frees the table only; release the instances that are still alive */
		uint32_t s;
		struct qb_hdb_handle *e;
		for (s = 0; s < hdb.handle_count; s++) {
			if (qb_array_index(hdb.handles, (int32_t)s, (void **)&e) == 0 && e->instance) {
				free(e->instance);
				e->instance = NULL;
			}
		}
		qb_hdb_destroy(&hdb);
	}
	qb_hdb_create(&hdb);
	hdb.destructor = dtor;
	hdb_live = 1;
	n_issued = 0;
}

static int parse_handle(const char *t, qb_handle_t *out)
{
	char *end = NULL;
	unsigned long long k, v;
	if (t[0] == 'r') {
		if (t[1] == 0) return -1;
		errno = 0;
		v = strtoull(t + 1, &end, 16);
		if (*end || errno) return -1;
		*out = v;
		return 0;
	}
	if (strchr("hnzsk", t[0]) == NULL || t[0] == 0 || t[1] == 0) return -1;
	k = strtoull(t + 1, &end, 10);
	if (end == t + 1 || k >= n_issued) return -1;
	switch (t[0]) {
	case 'h':
		if (*end) return -1;
		*out = issued[k];
		return 0;
	case 'n':
		if (*end) return -1;
		*out = qb_hdb_nocheck_convert(qb_hdb_base_convert(issued[k]));
		return 0;
	case 'z':
		if (*end) return -1;
		*out = (qb_handle_t)qb_hdb_base_convert(issued[k]);
		return 0;
	case 's':
		if (*end != ':' || end[1] == 0) return -1;
		errno = 0;
		v = strtoull(end + 1, &end, 10);
		if (*end || errno || v > 0xffffffffULL) return -1;
		*out = (issued[k] & 0xffffffff00000000ULL) | v;
		return 0;
	case 'k':
		if (*end != ':' || end[1] == 0) return -1;
		errno = 0;
		v = strtoull(end + 1, &end, 16);
		if (*end || errno || v > 0xffffffffULL) return -1;
		*out = (v << 32) | (issued[k] & 0xffffffffULL);
		return 0;
	}
	return -1;
}

static void print_rc(int32_t rc)
{
	if (rc == 0) printf("ok\n");
	else printf("%s\n", vl_errname(rc));
}

int main(void)
{
	char *t[VL_MAXTOK];
	int nt, i;
	VL_INIT();
	reset();
	while ((nt = vl_read(t)) >= 0) {
		qb_handle_t h = 0;
		if (strcmp(t[0], "case") == 0) {
			reset();
			printf("case %s\n", nt > 1 ? t[1] : "");
		} else if (strcmp(t[0], "create") == 0) {
			int32_t rc;
			int bad = 0;
			ndraws = 0;
			for (i = 1; i < nt && !bad; i++) {
				char *end;
				errno = 0;
				draws[ndraws++] = (long)strtoull(t[i], &end, 10);
				if (*end || errno) bad = 1;
			}
			if (bad) { printf("bad-op\n"); continue; }
			drawpos = 0;
			rc = qb_hdb_handle_create(&hdb, sizeof(struct obj), &h);
			if (rc != 0) {
				printf("%s\n", vl_errname(rc));
			} else {
				/* write the object number into the fresh instance, through the table entry
				 * (not through qb_hdb_handle_get, which would change the reference count) */
				struct qb_hdb_handle *e = NULL;
				if (qb_array_index(hdb.handles, (int32_t)qb_hdb_base_convert(h), (void **)&e) == 0 &&
				    e->instance != NULL) {
					((struct obj *)e->instance)->id = (int64_t)n_issued;
				} else {
					printf("harness-error: no instance in the slot of the fresh handle\n");
				}
				if (n_issued == cap_issued) {
					cap_issued = cap_issued ? cap_issued * 2 : 64;
					issued = realloc(issued, cap_issued * sizeof *issued);
				}
				issued[n_issued] = h;
				printf("ok %zu %016llx\n", n_issued, (unsigned long long)h);
				n_issued++;
			}
		} else if (strcmp(t[0], "createfail") == 0 && nt == 1) {
			/* instance_size = -1: malloc((size_t)-1) returns NULL, the call must fail with -ENOMEM
			 * (or -EINVAL when the table is at its limit) and leave no object behind */
			int32_t rc;
			ndraws = 0;
			drawpos = 0;
			rc = qb_hdb_handle_create(&hdb, -1, &h);
			if (rc == 0) printf("harness-error: create with instance_size -1 succeeded\n");
			else printf("%s\n", vl_errname(rc));
		} else if (strcmp(t[0], "dump") == 0 && nt == 1) {
			/* the database's own state (struct qb_hdb / struct qb_hdb_handle), for the correspondence only:
			 * handle_count, iterator, and per slot state:ref_count:check:instance */
			uint32_t sl;
			struct qb_hdb_handle *e;
			printf("tbl hc=%u it=%u", (unsigned)hdb.handle_count, (unsigned)hdb.iterator);
			for (sl = 0; sl < hdb.handle_count; sl++) {
				if (qb_array_index(hdb.handles, (int32_t)sl, (void **)&e) != 0) {
					printf(" %u:unreachable", sl);
				} else if (e->instance) {
					printf(" %u:%d:%d:%08x:%lld", sl, (int)e->state, (int)e->ref_count, (unsigned)e->check,
					       (long long)((struct obj *)e->instance)->id);
				} else {
					printf(" %u:%d:%d:%08x:null", sl, (int)e->state, (int)e->ref_count, (unsigned)e->check);
				}
			}
			printf("\n");
		} else if (strcmp(t[0], "iter_reset") == 0 && nt == 1) {
			qb_hdb_iterator_reset(&hdb);
			printf("ok\n");
		} else if (strcmp(t[0], "iter_next") == 0 && nt == 1) {
			void *inst = NULL;
			int32_t rc = qb_hdb_iterator_next(&hdb, &inst, &h);
			if (rc == 0) {
				if (inst) printf("ok %lld %016llx\n", (long long)((struct obj *)inst)->id, (unsigned long long)h);
				else printf("ok null %016llx\n", (unsigned long long)h);
			} else printf("end\n");
		} else if (nt == 2 && parse_handle(t[1], &h) == 0 &&
			   (strcmp(t[0], "get") == 0 || strcmp(t[0], "geta") == 0)) {
			void *inst = NULL;
			int32_t rc = (t[0][3] == 'a') ? qb_hdb_handle_get_always(&hdb, h, &inst)
						      : qb_hdb_handle_get(&hdb, h, &inst);
			if (rc == 0) {
				if (inst) printf("ok %lld\n", (long long)((struct obj *)inst)->id);
				else printf("ok null\n");
			} else print_rc(rc);
		} else if (nt == 2 && strcmp(t[0], "put") == 0 && parse_handle(t[1], &h) == 0) {
			print_rc(qb_hdb_handle_put(&hdb, h));
		} else if (nt == 2 && strcmp(t[0], "destroy") == 0 && parse_handle(t[1], &h) == 0) {
			print_rc(qb_hdb_handle_destroy(&hdb, h));
		} else if (nt == 2 && strcmp(t[0], "refcount") == 0 && parse_handle(t[1], &h) == 0) {
			printf("rc %d\n", (int)qb_hdb_handle_refcount_get(&hdb, h));
		} else {
			printf("bad-op\n");
		}
	}
	return 0;
}
